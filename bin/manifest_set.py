#!/usr/bin/env python3
"""developer tool: manifest_set.py claim Cxx '<level text>' [technique]  |  manifest_set.py na Cxx '<reason>'  |  manifest_set.py hooks
Keeps /verif/MANIFEST.json consistent (checks sorted by id, not_applicable complementary, hooks.source_commits = verif: commits of /repo)."""
import json, sys, subprocess
P='/verif/MANIFEST.json'
m=json.load(open(P))
NOTE=m['checks'][0]['level_note']
TECH="contract-based deductive verification: weakest-precondition VCs over go/ssa, discharged by z3/cvc5; counterexamples replayed with go test -overlay"
def hooks():
    out=subprocess.run(['git','-C','/repo','log','--format=%h %s'],capture_output=True,text=True).stdout
    m['hooks']['source_commits']=[l.split()[0] for l in reversed(out.splitlines()) if l.split(' ',1)[1].startswith('verif:')]
cmd=sys.argv[1]
if cmd=='claim':
    pid,text=sys.argv[2],sys.argv[3]
    tech=sys.argv[4] if len(sys.argv)>4 else TECH
    m['checks']=[c for c in m['checks'] if c['property_id']!=pid]
    m['checks'].append({"property_id":pid,"quick_cmd":f"/verif/bin/check {pid} quick","thorough_cmd":f"/verif/bin/check {pid} thorough",
      "evidence_file":f"/verif/evidence/{pid}.json","replay_cmd_template":"cat {path}","engine":"gocv",
      "level_claimed":{"category":"proof","text":text,"design_ref":f"DESIGN.md section 8 {pid}"},"level_note":NOTE,"technique":tech})
    m['checks'].sort(key=lambda c:c['property_id'])
    m['not_applicable']=[n for n in m.get('not_applicable',[]) if n['property_id']!=pid]
elif cmd=='na':
    pid,reason=sys.argv[2],sys.argv[3]
    m['checks']=[c for c in m['checks'] if c['property_id']!=pid]
    m['not_applicable']=[n for n in m.get('not_applicable',[]) if n['property_id']!=pid]+[{"property_id":pid,"reason":reason}]
    m['not_applicable'].sort(key=lambda c:c['property_id'])
elif cmd=='hooks':
    pass
hooks()
m['engines'][0]['serves_properties']=[c['property_id'] for c in m['checks']]
json.dump(m,open(P,'w'),indent=1)
print('claimed:',[c['property_id'] for c in m['checks']],'na:',[n['property_id'] for n in m['not_applicable']])
