package main

// Replay: extract the solver's counterexample for a failed obligation, rebuild
// the inputs as Go values, and run the real function (or the lemma harness)
// with the contract clause as run-time oracle, through `go test -overlay`.

import (
	"bufio"
	"bytes"
	"context"
	"encoding/json"
	"fmt"
	"go/types"
	"io"
	"os"
	"os/exec"
	"path/filepath"
	"sort"
	"strconv"
	"strings"
	"time"
)

const replayPrelude = `
import (
	"fmt"
	"reflect"
	"runtime"
	"runtime/debug"
	"strings"
	"testing"
)

var vs_candidates = []string{""}

// vsReplayDriver runs the counterexample as the solver gave it and then, because the values of
// uninterpreted library functions (regular expressions, trimming, ...) in the model need not
// agree with the real library, variants of it in which the model's strings are replaced by
// strings from a small dictionary. Every variant is checked against the real code with the
// run-time preconditions and oracle, so a reproduction is genuine whichever variant it is.
func vsReplayDriver(t *testing.T, body func(*testing.T, func(string) string)) {
	seen := []string{}
	if !t.Run("model", func(t *testing.T) {
		body(t, func(s string) string {
			for _, o := range seen {
				if o == s {
					return s
				}
			}
			seen = append(seen, s)
			return s
		})
	}) {
		return
	}
	dict := []string{"", " ", "\t", "x", "  x", "//", "-", "\n", "a,b", "0", "---", "x:", "é"}
	if len(seen) > 6 {
		seen = seen[:6]
	}
	for _, d := range dict {
		d := d
		if !t.Run("all="+d, func(t *testing.T) { body(t, func(string) string { return d }) }) {
			return
		}
		for _, k := range seen {
			k := k
			if !t.Run("one="+d, func(t *testing.T) {
				body(t, func(s string) string {
					if s == k {
						return d
					}
					return s
				})
			}) {
				return
			}
		}
	}
}

// old() support at run time: phase 1 (before the call) records the value of every
// vs_old(e) reached, keyed by call site and quantifier bindings; phase 2 (after the
// call) returns the recorded values.
var vs_phase int
var vs_oldLog = map[string]any{}
var vs_bind []any

func vsStack() string { return string(debug.Stack()) }
func vsContains(s, sub string) bool { return strings.Contains(s, sub) }
func vs_assume(b bool) { if !b { panic("vs_assume violated") } }
func vs_assert(b bool) { if !b { panic("vs_assert violated") } }
func vs_cover(b bool) {}
func vs_old[T any](x T) T {
	pc, _, _, _ := runtime.Caller(1)
	key := fmt.Sprintf("%d|%v", pc, vs_bind)
	switch vs_phase {
	case 1:
		vs_oldLog[key] = x
	case 2:
		v, ok := vs_oldLog[key]
		if !ok {
			panic("vs_oracle: no recorded old value")
		}
		return v.(T)
	}
	return x
}
func vs_try(f func() bool) (r bool) {
	if vs_phase != 1 {
		return f()
	}
	defer func() { if recover() != nil { r = true } }()
	return f()
}
func vs_all[T any](f func(T) bool) bool {
	var z T
	res := true
	switch any(z).(type) {
	case int:
		g := any(f).(func(int) bool)
		for i := -2; i <= 66; i++ {
			vs_bind = append(vs_bind, i)
			ok := vs_try(func() bool { return g(i) })
			vs_bind = vs_bind[:len(vs_bind)-1]
			if !ok { res = false; if vs_phase != 1 { return false } }
		}
	case string:
		g := any(f).(func(string) bool)
		for _, s := range vs_candidates {
			vs_bind = append(vs_bind, s)
			ok := vs_try(func() bool { return g(s) })
			vs_bind = vs_bind[:len(vs_bind)-1]
			if !ok { res = false; if vs_phase != 1 { return false } }
		}
	}
	return res
}
func vs_any[T any](f func(T) bool) bool {
	var z T
	res := false
	switch any(z).(type) {
	case int:
		g := any(f).(func(int) bool)
		for i := -2; i <= 66; i++ {
			vs_bind = append(vs_bind, i)
			ok := vs_try(func() bool { return g(i) })
			vs_bind = vs_bind[:len(vs_bind)-1]
			if ok { res = true; if vs_phase != 1 { return true } }
		}
	case string:
		g := any(f).(func(string) bool)
		for _, s := range vs_candidates {
			vs_bind = append(vs_bind, s)
			ok := vs_try(func() bool { return g(s) })
			vs_bind = vs_bind[:len(vs_bind)-1]
			if ok { res = true; if vs_phase != 1 { return true } }
		}
	}
	return res
}
func vs_fresh(p any) bool { return true }
func vs_modifies(p any) {}
func vs_visited(n int, k any) bool { return false }
func vs_ranged[M any](n int) M { panic("vs_oracle: iterator state is not available at run time") }
func vs_done(n int) int { return 0 }
func vs_pos(n int) int { panic("vs_oracle: iterator positions are not available at run time") }
func vs_called(callee string) bool { panic("vs_oracle: call history is not available at run time") }
func vs_callResult[T any](callee string, i int) T { panic("vs_oracle: call history is not available at run time") }
func vs_callArg[T any](callee string, i int) T { panic("vs_oracle: call history is not available at run time") }
func vs_callOrder(callee string) int { panic("vs_oracle: call history is not available at run time") }
func vs_eq[T any](a, b T) bool { return reflect.DeepEqual(a, b) }
func vs_same[T any](a, b []T) bool { return len(a) == len(b) && (len(a) == 0 || &a[0] == &b[0]) }
func vs_has[K comparable, V any](m map[K]V, k K) bool { _, ok := m[k]; return ok }
`

type modelSession struct {
	cmd *exec.Cmd
	in  io.WriteCloser
	out *bufio.Reader
}

func startModelSession(script string) (*modelSession, string, error) {
	ctx, cancel := context.WithTimeout(context.Background(), 90*time.Second)
	_ = cancel
	cmd := exec.CommandContext(ctx, "z3-new", "-in", "-T:25")
	in, _ := cmd.StdinPipe()
	outp, _ := cmd.StdoutPipe()
	cmd.Stderr = io.Discard
	if err := cmd.Start(); err != nil {
		return nil, "", err
	}
	m := &modelSession{cmd, in, bufio.NewReader(outp)}
	io.WriteString(in, script)
	line, err := m.out.ReadString('\n')
	if err != nil {
		return m, "", err
	}
	return m, strings.TrimSpace(line), nil
}

func (m *modelSession) close() {
	m.in.Close()
	m.cmd.Process.Kill()
	m.cmd.Wait()
}

// eval returns the model value of a term as SMT text.
func (m *modelSession) eval(term string) (string, error) {
	fmt.Fprintf(m.in, "(get-value (%s))\n", term)
	// read one balanced s-expression
	var b strings.Builder
	depth := 0
	started := false
	inStr := false
	for {
		c, err := m.out.ReadByte()
		if err != nil {
			return "", err
		}
		b.WriteByte(c)
		if inStr {
			if c == '"' {
				inStr = false
			}
			continue
		}
		switch c {
		case '"':
			inStr = true
		case '(':
			depth++
			started = true
		case ')':
			depth--
		}
		if started && depth == 0 {
			break
		}
	}
	s := strings.TrimSpace(b.String())
	if strings.HasPrefix(s, "(error") {
		return "", fmt.Errorf("%s", s)
	}
	// s = ((term value)); strip the outer pair and the term
	s = strings.TrimSpace(s[1 : len(s)-1])
	s = strings.TrimSpace(s[1 : len(s)-1])
	// the term is echoed; value follows. Find split point by skipping one s-expr.
	i := skipSexpr(s, 0)
	return strings.TrimSpace(s[i:]), nil
}

func skipSexpr(s string, i int) int {
	for i < len(s) && (s[i] == ' ' || s[i] == '\n') {
		i++
	}
	if i >= len(s) {
		return i
	}
	if s[i] == '(' {
		depth := 0
		inStr := false
		for ; i < len(s); i++ {
			c := s[i]
			if inStr {
				if c == '"' {
					inStr = false
				}
				continue
			}
			if c == '"' {
				inStr = true
			} else if c == '(' {
				depth++
			} else if c == ')' {
				depth--
				if depth == 0 {
					return i + 1
				}
			}
		}
		return i
	}
	if s[i] == '"' {
		i++
		for i < len(s) {
			if s[i] == '"' {
				if i+1 < len(s) && s[i+1] == '"' {
					i += 2
					continue
				}
				return i + 1
			}
			i++
		}
		return i
	}
	for i < len(s) && s[i] != ' ' && s[i] != ')' && s[i] != '\n' {
		i++
	}
	return i
}

// nonZeroRef: the model value of a reference is not 0 (references may be huge numbers).
func nonZeroRef(v string) bool {
	v = strings.TrimSpace(v)
	return v != "0" && v != "" && !strings.HasPrefix(v, "(- 0")
}

func parseSMTInt(v string) (int64, bool) {
	v = strings.TrimSpace(v)
	neg := false
	if strings.HasPrefix(v, "(-") {
		neg = true
		v = strings.TrimSpace(strings.TrimSuffix(strings.TrimPrefix(v, "(-"), ")"))
	}
	n, err := strconv.ParseInt(v, 10, 64)
	if err != nil {
		// big numbers (uint64 range)
		return 0, false
	}
	if neg {
		n = -n
	}
	return n, true
}

func parseSMTReal(v string) (string, bool) {
	v = strings.TrimSpace(v)
	neg := false
	if strings.HasPrefix(v, "(- ") {
		neg = true
		v = strings.TrimSpace(v[3 : len(v)-1])
	}
	var f float64
	if strings.HasPrefix(v, "(/ ") {
		parts := strings.Fields(strings.Trim(v[3:], ")"))
		if len(parts) != 2 {
			return "", false
		}
		a, e1 := strconv.ParseFloat(parts[0], 64)
		b, e2 := strconv.ParseFloat(parts[1], 64)
		if e1 != nil || e2 != nil || b == 0 {
			return "", false
		}
		f = a / b
	} else {
		var err error
		f, err = strconv.ParseFloat(strings.TrimSuffix(v, "?"), 64)
		if err != nil {
			return "", false
		}
	}
	if neg {
		f = -f
	}
	return strconv.FormatFloat(f, 'g', -1, 64), true
}

func parseSMTString(v string) (string, bool) {
	v = strings.TrimSpace(v)
	if len(v) < 2 || v[0] != '"' || v[len(v)-1] != '"' {
		return "", false
	}
	v = v[1 : len(v)-1]
	var out []byte
	for i := 0; i < len(v); i++ {
		c := v[i]
		if c == '"' && i+1 < len(v) && v[i+1] == '"' {
			out = append(out, '"')
			i++
			continue
		}
		if c == '\\' && i+2 < len(v) && v[i+1] == 'u' {
			j := i + 2
			hex := ""
			if v[j] == '{' {
				k := strings.IndexByte(v[j:], '}')
				if k < 0 {
					return "", false
				}
				hex = v[j+1 : j+k]
				i = j + k
			} else if j+4 <= len(v) {
				hex = v[j : j+4]
				i = j + 3
			}
			n, err := strconv.ParseUint(hex, 16, 32)
			if err != nil {
				return "", false
			}
			if n < 256 {
				out = append(out, byte(n))
			} else {
				out = append(out, []byte(string(rune(n)))...)
			}
			continue
		}
		out = append(out, c)
	}
	return string(out), true
}

type valueBuilder struct {
	m       *modelSession
	x       *Exec
	buf     bytes.Buffer
	n       int
	ptrVars map[string]string // "heap:ref" -> variable name
	imports map[string]string // path -> name
	self    *types.Package
	strs    map[string]bool
	fail    string
	truncated bool
}

func (vb *valueBuilder) qual(p *types.Package) string {
	if p == vb.self {
		return ""
	}
	if n, ok := vb.imports[p.Path()]; ok {
		return n
	}
	n := p.Name()
	for _, used := range vb.imports {
		if used == n {
			n = n + "x"
		}
	}
	vb.imports[p.Path()] = n
	return n
}

func (vb *valueBuilder) typeStr(t types.Type) string { return types.TypeString(t, vb.qual) }

func (vb *valueBuilder) newVar() string {
	vb.n++
	return fmt.Sprintf("vs_v%d", vb.n)
}

func (vb *valueBuilder) initHeapTerm(name string) (string, bool) {
	t, ok := vb.x.initHeap[name]
	if !ok {
		return "", false
	}
	return t.S, true
}

func exportedOrSamePkg(f *types.Var, self *types.Package) bool {
	return f.Exported() || f.Pkg() == self
}

// build returns a Go expression for the model value of term (of Go type t).
func (vb *valueBuilder) build(term string, t types.Type, depth int) string {
	if vb.fail != "" {
		return "nil"
	}
	if depth > 6 {
		return vb.zeroExpr(t)
	}
	vc := vb.x.vc
	switch u := underlying(t).(type) {
	case *types.Basic:
		v, err := vb.m.eval(term)
		if err != nil {
			vb.fail = err.Error()
			return vb.zeroExpr(t)
		}
		info := u.Info()
		switch {
		case info&types.IsBoolean != 0:
			return fmt.Sprintf("%s(%s)", vb.typeStr(t), v)
		case info&types.IsInteger != 0:
			n, ok := parseSMTInt(v)
			if !ok {
				vb.fail = "integer value out of range: " + v
				return "0"
			}
			return fmt.Sprintf("%s(%d)", vb.typeStr(t), n)
		case info&types.IsFloat != 0:
			f, ok := parseSMTReal(v)
			if !ok {
				vb.fail = "cannot parse real " + v
				return "0"
			}
			return fmt.Sprintf("%s(%s)", vb.typeStr(t), f)
		case info&types.IsString != 0:
			s, ok := parseSMTString(v)
			if !ok {
				vb.fail = "cannot parse string " + v
				return `""`
			}
			vb.strs[s] = true
			return fmt.Sprintf("%s(vs_s(%s))", vb.typeStr(t), strconv.Quote(s))
		}
		return vb.zeroExpr(t)
	case *types.Pointer:
		v, err := vb.m.eval(term)
		if err != nil {
			vb.fail = err.Error()
			return "nil"
		}
		if !nonZeroRef(v) {
			return "nil"
		}
		ref := strings.TrimSpace(v)
		et := u.Elem()
		if _, isArr := isArrayType(et); isArr {
			vb.fail = "pointer to array in model"
			return "nil"
		}
		h := vc.objHeap(et)
		key := fmt.Sprintf("%s:%s", h.name, ref)
		if name, ok := vb.ptrVars[key]; ok {
			return name
		}
		name := vb.newVar()
		vb.ptrVars[key] = name
		fmt.Fprintf(&vb.buf, "\t%s := new(%s)\n", name, vb.typeStr(et))
		if ht, ok := vb.initHeapTerm(h.name); ok {
			val := vb.build(fmt.Sprintf("(select %s %s)", ht, ref), et, depth+1)
			fmt.Fprintf(&vb.buf, "\t*%s = %s\n", name, val)
		}
		return name
	case *types.Slice:
		arrV, err := vb.m.eval("(s-arr " + term + ")")
		if err != nil {
			vb.fail = err.Error()
			return "nil"
		}
		if !nonZeroRef(arrV) {
			return "nil"
		}
		arr := strings.TrimSpace(arrV)
		lv, _ := vb.m.eval("(s-len " + term + ")")
		ln, lok := parseSMTInt(lv)
		off := int64(0)
		if !lok || ln > 8 {
			// long slices are truncated: the replay on the real code decides whether the
			// (shortened) input still shows the failure
			ln = 8
			vb.truncated = true
		}
		h := vc.arrHeap(u.Elem())
		ht, haveHeap := vb.initHeapTerm(h.name)
		var elems []string
		for i := int64(0); i < ln; i++ {
			if haveHeap {
				elems = append(elems, vb.build(fmt.Sprintf("(select (select %s %s) %d)", ht, arr, off+i), u.Elem(), depth+1))
			} else {
				elems = append(elems, vb.zeroExpr(u.Elem()))
			}
		}
		return fmt.Sprintf("%s{%s}", vb.typeStr(t), strings.Join(elems, ", "))
	case *types.Struct:
		si := vc.structInfoOf(t)
		var parts []string
		for i := 0; i < u.NumFields(); i++ {
			f := u.Field(i)
			if !exportedOrSamePkg(f, vb.self) {
				continue // unexported field of another package: left zero
			}
			val := vb.build(fmt.Sprintf("(%s %s)", si.fields[i], term), f.Type(), depth+1)
			if val == vb.zeroExpr(f.Type()) {
				continue
			}
			parts = append(parts, fmt.Sprintf("%s: %s", f.Name(), val))
		}
		return fmt.Sprintf("%s{%s}", vb.typeStr(t), strings.Join(parts, ", "))
	case *types.Interface:
		tv, err := vb.m.eval("(i-type " + term + ")")
		if err != nil {
			vb.fail = err.Error()
			return "nil"
		}
		id, idOK := parseSMTInt(tv)
		if !nonZeroRef(tv) {
			return "nil"
		}
		if !idOK {
			id = -1 // a type id outside int64: some dynamic type the unit knows nothing about
		}
		ct, ok := vc.typeByID[int(id)]
		if os.Getenv("GOCV_DEBUG_MODEL") != "" {
			fmt.Fprintf(os.Stderr, "iface %s: type id %d -> %v\n", term, id, ct)
		}
		if !ok {
			// an arbitrary dynamic type: use a string
			if u.NumMethods() == 0 {
				return `any("vs_other")`
			}
			vb.fail = "interface value of unknown dynamic type"
			return "nil"
		}
		if _, isIface := underlying(ct).(*types.Interface); isIface {
			return "nil"
		}
		var inner string
		if vc.sortOf(ct) == SInt {
			inner = vb.build("(i-val "+term+")", ct, depth+1)
		} else {
			inner = vb.build(fmt.Sprintf("(unbox_%s (i-val %s))", mangle(shortTypeKey(ct)), term), ct, depth+1)
		}
		return fmt.Sprintf("%s(%s)", vb.typeStr(t), inner)
	case *types.Map:
		v, err := vb.m.eval(term)
		if err != nil {
			vb.fail = err.Error()
			return "nil"
		}
		if !nonZeroRef(v) {
			return "nil"
		}
		// contents are not rebuilt: an empty map stands in (the replay decides whether that matters)
		return "make(" + vb.typeStr(t) + ")"
	case *types.Array:
		var elems []string
		for i := int64(0); i < u.Len() && i < 16; i++ {
			elems = append(elems, vb.build(fmt.Sprintf("(select %s %d)", term, i), u.Elem(), depth+1))
		}
		return fmt.Sprintf("%s{%s}", vb.typeStr(t), strings.Join(elems, ", "))
	case *types.Signature:
		vb.fail = "function-typed input"
		return "nil"
	}
	vb.fail = "unsupported input type " + t.String()
	return "nil"
}

func (vb *valueBuilder) zeroExpr(t types.Type) string {
	switch u := underlying(t).(type) {
	case *types.Basic:
		info := u.Info()
		switch {
		case info&types.IsBoolean != 0:
			return fmt.Sprintf("%s(false)", vb.typeStr(t))
		case info&types.IsString != 0:
			return fmt.Sprintf("%s(\"\")", vb.typeStr(t))
		case info&(types.IsInteger|types.IsFloat) != 0:
			return fmt.Sprintf("%s(0)", vb.typeStr(t))
		}
	case *types.Struct:
		return vb.typeStr(t) + "{}"
	case *types.Array:
		return vb.typeStr(t) + "{}"
	}
	return "nil"
}

// replayObligation writes the replay file for a failed obligation and, where a
// model is available and the unit is replayable, runs it against the real code.
// It returns the replay path and whether the violation was reproduced.
func replayObligation(e *Engine, o *Obligation, outDir, work string) (string, bool) {
	base := filepath.Join(outDir, "replay", sanitize(o.Name))
	rp := base + ".txt"
	var b strings.Builder
	fmt.Fprintf(&b, "obligation: %s\nkind: %s\nunit: %s\nposition: %s\nsolver verdict: %s (%s)\n", o.Name, o.Kind, o.Unit, o.Pos, o.Result.Status, o.Result.Solver)
	for s, out := range o.Result.Outputs {
		fmt.Fprintf(&b, "solver %s: %s\n", s, out)
	}
	finish := func(msg string, ok bool) (string, bool) {
		b.WriteString("\nreplay: " + msg + "\n")
		os.WriteFile(rp, []byte(b.String()), 0o644)
		return rp, ok
	}
	if o.Detail != "" {
		b.WriteString("\n" + o.Detail + "\n")
	}
	x := o.x
	if x == nil || x.root == nil {
		return finish("no execution context", false)
	}
	relaxed := o.Result.Status != "sat"
	if relaxed {
		b.WriteString("\nno model from the full query (verdict " + o.Result.Status + "); looking for a candidate model of the query without its quantified assumptions (a candidate only: the replay on the real code decides)\n")
	}
	fn := x.root.fn
	tp := e.Targets[fn.Pkg.Pkg.Path()]
	if tp == nil {
		return finish("unit is not in a target package", false)
	}
	// which run-time oracle?
	isLemma := strings.HasPrefix(fn.Name(), "vs_lemma_")
	var oracle string // ghost function name for ensures
	switch {
	case isLemma:
	case o.Kind == "ensures":
		oracle = o.Ghost
	case o.Kind == "bounds" || o.Kind == "nilderef" || o.Kind == "slice" || o.Kind == "nilmap" || o.Kind == "assert-type" || o.Kind == "div0" || o.Kind == "panic-unreachable":
	default:
		if os.Getenv("GOCV_DEBUG_MODEL") == "" {
			return finish("obligations of kind "+o.Kind+" have no run-time oracle", false)
		}
	}
	script := o.vc.scriptOpt(o.Upto, o.Path, o.Goal, true, relaxed)
	// prefer small models: bound the length of every slice-sorted constant and of the inputs
	var small strings.Builder
	for i, p := range fn.Params {
		sizeHints(x, &small, x.rootParams[i].S, p.Type(), 0, map[string]bool{})
	}
	fmt.Fprintf(&small, "(assert (<= %s 64))\n", x.top0.S)
	scriptBase := script
	var m *modelSession
	var verdict string
	var err error
	lensOnly := &strings.Builder{}
	for _, l := range strings.Split(small.String(), "\n") {
		if l != "" && !strings.HasSuffix(l, ";pref") {
			lensOnly.WriteString(l + "\n")
		}
	}
	for _, hints := range []string{small.String(), lensOnly.String(), ""} {
		script = strings.Replace(scriptBase, "(check-sat)\n", hints+"(check-sat)\n", 1)
		m, verdict, err = startModelSession(script)
		if err == nil && verdict == "sat" {
			break
		}
		if m != nil {
			m.close()
			m = nil
		}
	}
	if m != nil {
		defer m.close()
	}
	if err != nil || verdict != "sat" {
		return finish(fmt.Sprintf("model session: verdict %q err %v", verdict, err), false)
	}
	vb := &valueBuilder{m: m, x: x, ptrVars: map[string]string{}, imports: map[string]string{}, self: tp.Types, strs: map[string]bool{}}
	var argExprs []string
	for i, p := range fn.Params {
		argExprs = append(argExprs, vb.build(x.rootParams[i].S, p.Type(), 0))
	}
	if os.Getenv("GOCV_DEBUG_MODEL") != "" {
		b.WriteString("\nMODEL INPUTS:\n" + vb.buf.String())
		for i, a := range argExprs {
			fmt.Fprintf(&b, "arg %d (%s) = %s\n", i, fn.Params[i].Name(), a)
		}
		for _, d := range o.vc.decls {
			if strings.HasPrefix(d, "(declare-const lc_") || strings.HasPrefix(d, "(declare-const ar!") || strings.HasPrefix(d, "(declare-const top") {
				name := strings.Fields(d)[1]
				if v, err := m.eval(name); err == nil {
					fmt.Fprintf(&b, "%s = %s\n", name, v)
				}
			}
		}
		return finish("debug dump", false)
	}
	if vb.fail != "" {
		return finish("counterexample could not be rebuilt as Go values: "+vb.fail, false)
	}
	// test source
	var src bytes.Buffer
	fmt.Fprintf(&src, "package %s\n\nimport (\n\t\"testing\"\n", tp.Types.Name())
	paths := make([]string, 0, len(vb.imports))
	for p := range vb.imports {
		paths = append(paths, p)
	}
	sort.Strings(paths)
	bodyText := vb.buf.String() + strings.Join(argExprs, " ")
	for i := 0; i < fn.Signature.Results().Len(); i++ {
		bodyText += " " + vb.typeStr(fn.Signature.Results().At(i).Type())
	}
	for _, p := range fn.Params {
		bodyText += " " + vb.typeStr(p.Type())
	}
	paths = paths[:0]
	for p := range vb.imports {
		paths = append(paths, p)
	}
	sort.Strings(paths)
	for _, p := range paths {
		if strings.Contains(bodyText, vb.imports[p]+".") {
			fmt.Fprintf(&src, "\t%s %q\n", vb.imports[p], p)
		}
	}
	src.WriteString(")\n\n")
	fmt.Fprintf(&src, "// replay of %s\nfunc TestVerifReplay(t *testing.T) { vsReplayDriver(t, vsReplayBody) }\n\nfunc vsReplayBody(t *testing.T, vs_s func(string) string) {\n\tvs_oldLog = map[string]any{}\n\tvs_candidates = []string{\"\"}\n", o.Name)
	var cands []string
	for s := range vb.strs {
		cands = append(cands, strconv.Quote(s))
	}
	sort.Strings(cands)
	fmt.Fprintf(&src, "\tvs_candidates = append(vs_candidates, %s)\n", strings.Join(append([]string{`""`}, cands...), ", "))
	src.Write(vb.buf.Bytes())
	var names []string
	for i, a := range argExprs {
		n := fmt.Sprintf("vs_a%d", i)
		names = append(names, n)
		fmt.Fprintf(&src, "\tvar %s %s = %s\n\t_ = %s\n", n, vb.typeStr(fn.Params[i].Type()), a, n)
	}
	callee := fn.Name()
	argList := names
	if fn.Signature.Recv() != nil {
		callee = "(" + vb.typeStr(fn.Signature.Recv().Type()) + ")." + fn.Name()
	}
	c := x.root.contract
	if !isLemma && c != nil {
		for _, cl := range c.Requires {
			fmt.Fprintf(&src, "\tif !%s(%s) { t.Skip(\"model violates requires\") }\n", cl.Ghost, strings.Join(names, ", "))
		}
	}
	nres := fn.Signature.Results().Len()
	var resNames []string
	for i := 0; i < nres; i++ {
		resNames = append(resNames, fmt.Sprintf("vs_r%d", i))
	}
	call := fmt.Sprintf("%s(%s)", callee, strings.Join(argList, ", "))
	for i, r := range resNames {
		fmt.Fprintf(&src, "\tvar %s %s\n\t_ = %s\n", r, vb.typeStr(fn.Signature.Results().At(i).Type()), r)
	}
	if oracle != "" {
		// phase 1: record old() values before the call
		fmt.Fprintf(&src, "\tvs_phase = 1\n\tfunc() { defer func() { recover() }(); %s(%s) }()\n\tvs_phase = 0\n", oracle, strings.Join(append(append([]string{}, names...), resNames...), ", "))
	}
	src.WriteString("\tvar vs_panic any\n\tvar vs_stack string\n\t_ = vs_stack\n\tfunc() {\n\t\tdefer func() { vs_panic = recover(); if vs_panic != nil { vs_stack = vsStack() } }()\n")
	if nres > 0 {
		fmt.Fprintf(&src, "\t\t%s = %s\n", strings.Join(resNames, ", "), call)
	} else {
		fmt.Fprintf(&src, "\t\t%s\n", call)
	}
	src.WriteString("\t}()\n")
	switch {
	case isLemma:
		src.WriteString("\tif s, ok := vs_panic.(string); ok && s == \"vs_assume violated\" { t.Skip(\"model violates lemma hypothesis\") }\n")
		src.WriteString("\tif vs_panic != nil { t.Fatalf(\"VERIF-REPRODUCED: %v\", vs_panic) }\n")
	case oracle == "":
		// the panic must come from the very statement the obligation guards
		site := o.Pos
		if i := strings.LastIndex(site, "/"); i >= 0 {
			site = site[i+1:]
		}
		fmt.Fprintf(&src, "\tif vs_panic != nil && !vsContains(vs_stack, %q) { t.Skipf(\"the real function panics elsewhere: %%v\", vs_panic) }\n", site+" ")
		src.WriteString("\tif vs_panic != nil { t.Fatalf(\"VERIF-REPRODUCED: the real function panics: %v\", vs_panic) }\n")
	default:
		if c != nil && c.Safety {
			src.WriteString("\tif vs_panic != nil { t.Fatalf(\"VERIF-REPRODUCED: the real function panics instead of returning (its contract says it never does): %v\", vs_panic) }\n")
		} else {
			src.WriteString("\tif vs_panic != nil { t.Skipf(\"the real function panics on this input (%v): not the failure this obligation describes\", vs_panic) }\n")
		}
		fmt.Fprintf(&src, "\tvs_phase = 2\n\tvar vs_ok bool\n\tvar vs_opanic any\n\tfunc() {\n\t\tdefer func() { vs_opanic = recover() }()\n\t\tvs_ok = %s(%s)\n\t}()\n", oracle, strings.Join(append(append([]string{}, names...), resNames...), ", "))
		src.WriteString("\tif vs_opanic != nil { t.Skipf(\"oracle could not be evaluated: %v\", vs_opanic) }\n")
		fmt.Fprintf(&src, "\tif !vs_ok { t.Fatalf(\"VERIF-REPRODUCED: postcondition false after the call; results: %%+v\", []any{%s}) }\n", strings.Join(resNames, ", "))
	}
	src.WriteString("}\n")
	testFile := base + "_test.go"
	os.WriteFile(testFile, src.Bytes(), 0o644)
	b.WriteString("\nreplay test: " + testFile + "\n")
	// overlay
	ov := map[string]map[string]string{"Replace": {}}
	pkgDir := tp.Pkg.Dir
	ovDir := filepath.Join(work, "ov-"+sanitize(o.Name))
	os.MkdirAll(ovDir, 0o755)
	for name, gsrc := range tp.GhostSrc {
		if name == "zz_vs_prelude.go" {
			gsrc = []byte("package " + tp.Types.Name() + "\n" + replayPrelude)
		}
		f := filepath.Join(ovDir, name)
		os.WriteFile(f, gsrc, 0o644)
		ov["Replace"][filepath.Join(pkgDir, name)] = f
	}
	ov["Replace"][filepath.Join(pkgDir, "zz_vs_replay_test.go")] = testFile
	ovJSON, _ := json.Marshal(ov)
	ovFile := filepath.Join(ovDir, "overlay.json")
	os.WriteFile(ovFile, ovJSON, 0o644)
	ctx, cancel := context.WithTimeout(context.Background(), 240*time.Second)
	defer cancel()
	cmd := exec.CommandContext(ctx, "go", "test", "-overlay", ovFile, "-vet=off", "-count=1", "-timeout", "60s", "-run", "^TestVerifReplay$", ".")
	cmd.Dir = pkgDir
	cmd.Env = append(os.Environ(), "GOFLAGS=-mod=readonly", "GOPROXY=off", "GOSUMDB=off", "GOTOOLCHAIN=local")
	out, _ := cmd.CombinedOutput()
	outs := string(out)
	if len(outs) > 4000 {
		outs = outs[:4000]
	}
	b.WriteString("\n--- go test output ---\n" + outs + "\n")
	if strings.Contains(string(out), "VERIF-REPRODUCED") {
		return finish("REPRODUCED on the real code", true)
	}
	if strings.Contains(string(out), "model violates") {
		return finish("the model violates a precondition at run time (spurious: uninterpreted library values)", false)
	}
	return finish("not reproduced", false)
}

// sizeHints emits assertions that keep every slice reachable from term (through
// the entry heap) short, so that the counterexample can be rebuilt.
func sizeHints(x *Exec, out *strings.Builder, term string, t types.Type, depth int, seen map[string]bool) {
	if depth > 4 {
		return
	}
	vc := x.vc
	switch u := underlying(t).(type) {
	case *types.Pointer:
		et := u.Elem()
		if _, isArr := isArrayType(et); isArr {
			return
		}
		k := typeKey(et)
		if seen[k] {
			return
		}
		seen[k] = true
		h := vc.objHeap(et)
		if ht, ok := x.initHeap[h.name]; ok {
			sizeHints(x, out, fmt.Sprintf("(select %s %s)", ht.S, term), et, depth+1, seen)
		}
		delete(seen, k)
	case *types.Slice:
		fmt.Fprintf(out, "(assert (<= (s-len %s) 2))\n", term)
		h := vc.arrHeap(u.Elem())
		if ht, ok := x.initHeap[h.name]; ok {
			for i := 0; i < 2; i++ {
				sizeHints(x, out, fmt.Sprintf("(select (select %s (s-arr %s)) %d)", ht.S, term, i), u.Elem(), depth+1, seen)
			}
		}
	case *types.Struct:
		si := vc.structInfoOf(t)
		for i := 0; i < u.NumFields(); i++ {
			switch underlying(u.Field(i).Type()).(type) {
			case *types.Map:
				fmt.Fprintf(out, "(assert (= (%s %s) 0)) ;pref\n", si.fields[i], term)
			case *types.Interface:
				fmt.Fprintf(out, "(assert (= (i-type (%s %s)) 0)) ;pref\n", si.fields[i], term)
			case *types.Slice, *types.Struct, *types.Pointer:
				sizeHints(x, out, fmt.Sprintf("(%s %s)", si.fields[i], term), u.Field(i).Type(), depth+1, seen)
			}
		}
	}
}
