package main

import (
	"fmt"
	"go/ast"
	"os"
	"sort"
	"go/token"
	"go/types"
	"strings"

	"golang.org/x/tools/go/ssa"
)

func isIntrinsic(fn *ssa.Function) bool {
	return strings.HasPrefix(fn.Name(), "vs_") && intrinsicName(fn) != ""
}

// intrinsicName returns the base name of an intrinsic ("vs_old" for vs_old[int]).
func intrinsicName(fn *ssa.Function) string {
	n := fn.Name()
	if i := strings.IndexByte(n, '['); i >= 0 {
		n = n[:i]
	}
	switch n {
	case "vs_assume", "vs_assert", "vs_old", "vs_all", "vs_any", "vs_fresh", "vs_modifies",
		"vs_visited", "vs_ranged", "vs_cover", "vs_same", "vs_done", "vs_pos", "vs_called", "vs_callResult", "vs_callArg", "vs_callOrder", "vs_eq":
		return n
	}
	return ""
}

func (x *Exec) call(fr *Frame, st *State, in *ssa.Call) {
	x.callCommon(fr, st, in, &in.Call, in)
}

// setResult binds the results of a call instruction.
func (x *Exec) setResult(fr *Frame, v ssa.Value, sig *types.Signature, vals []Term) {
	if v == nil {
		return
	}
	switch len(vals) {
	case 0:
	case 1:
		fr.regs[v] = vals[0]
	default:
		fr.tuples[v] = vals
	}
}

func (x *Exec) args(fr *Frame, st *State, cc *ssa.CallCommon) []Term {
	var as []Term
	for _, a := range cc.Args {
		as = append(as, x.val(fr, st, a))
	}
	return as
}

func (x *Exec) callCommon(fr *Frame, st *State, ins ssa.Instruction, cc *ssa.CallCommon, res ssa.Value) {
	pos := ins.Pos()
	if debugCovers && fr == x.root && !fr.spec {
		defer func() { x.oblige(fr, "cover", "after "+snippetOf(ins), st, tFalse, pos) }()
	}
	if cc.IsInvoke() {
		record := x.recordsCalls(fr) && x.vc.noName == 0
		var argTerms []Term
		if record {
			argTerms = append([]Term{x.val(fr, st, cc.Value)}, x.args(fr, st, cc)...)
		}
		x.invoke(fr, st, ins, cc, res)
		if record {
			x.callSeq++
			rec := &callRec{called: tTrue, args: argTerms, seq: intLit(int64(x.callSeq))}
			if res != nil {
				if t, ok := fr.regs[res]; ok {
					rec.results = []Term{t}
				} else if tup, ok := fr.tuples[res]; ok {
					rec.results = tup
				}
			}
			if st.calls == nil {
				st.calls = map[string]*callRec{}
			}
			st.calls[cc.Method.Name()] = rec
		}
		return
	}
	switch callee := cc.Value.(type) {
	case *ssa.Builtin:
		x.builtin(fr, st, ins, cc, callee, res)
		return
	case *ssa.Function:
		var argTerms []Term
		record := x.recordsCalls(fr) && !strings.HasPrefix(callee.Name(), "vs_") && x.vc.noName == 0
		if record {
			argTerms = x.args(fr, st, cc)
		}
		x.staticCall(fr, st, ins, cc, callee, nil, res)
		if record {
			x.callSeq++
			rec := &callRec{called: tTrue, args: argTerms, seq: intLit(int64(x.callSeq))}
			if res != nil {
				if t, ok := fr.regs[res]; ok {
					rec.results = []Term{t}
				} else if tup, ok := fr.tuples[res]; ok {
					rec.results = tup
				}
			}
			if st.calls == nil {
				st.calls = map[string]*callRec{}
			}
			st.calls[callee.Name()] = rec
		}
		return
	case *ssa.MakeClosure:
		c := fr.clos[callee]
		if c == nil {
			panic(engErr("closure not evaluated"))
		}
		x.closureCall(fr, st, ins, cc, c, res)
		return
	}
	// dynamic call through a function value
	fv := x.val(fr, st, cc.Value)
	if c := x.closByTerm()[fv.S]; c != nil {
		x.closureCall(fr, st, ins, cc, c, res)
		return
	}
	if g := loadedGlobal(cc.Value); g != nil && g.Pkg != nil && x.eng.Targets[g.Pkg.Pkg.Path()] == nil {
		// a function-typed package variable of a dependency (fmts.YAMLToJSON ...): set by that
		// package's initialiser; taken to be non-nil
		x.note("function variable %s of a dependency is assumed non-nil", g.String())
	} else {
		x.safety(fr, "nilfunc", cc.Value.Name(), st, not(eq(fv, intLit(0))), pos)
	}
	x.note("A11: a call through a function value (%s in %s) is taken to change only what its arguments reach; variables captured by the closure are not tracked", cc.Value.Name(), shortFn(fr.fn))
	sig := cc.Signature()
	dynArgs := x.args(fr, st, cc)
	x.havocCall(fr, st, ins, "dynamic call through "+cc.Value.Name(), sig, dynArgs, cc.Args, res)
	// call history: a call through a function-typed parameter or local is recorded under the
	// variable's source name
	if nm := funcVarName(cc.Value); nm != "" && x.recordsCalls(fr) && x.vc.noName == 0 {
		x.callSeq++
		rec := &callRec{called: tTrue, args: dynArgs, seq: intLit(int64(x.callSeq))}
		if res != nil {
			if t, ok := fr.regs[res]; ok {
				rec.results = []Term{t}
			} else if tup, ok := fr.tuples[res]; ok {
				rec.results = tup
			}
		}
		if st.calls == nil {
			st.calls = map[string]*callRec{}
		}
		st.calls[nm] = rec
	}
}

// recordsCalls: the call history of a unit holds the calls made by the function under
// verification itself and by its own function literals (deferred closures, callbacks it defines).
func (x *Exec) recordsCalls(fr *Frame) bool {
	if fr.spec || x.root == nil {
		return false
	}
	if fr == x.root {
		return true
	}
	for p := fr.fn.Parent(); p != nil; p = p.Parent() {
		if p == x.root.fn {
			return true
		}
	}
	return false
}

// funcVarName: the source name of the variable a dynamically called function value is read from.
func funcVarName(v ssa.Value) string {
	switch t := v.(type) {
	case *ssa.Parameter:
		return t.Name()
	case *ssa.UnOp:
		if a, ok := t.X.(*ssa.Alloc); ok {
			return a.Comment
		}
	}
	return ""
}

func (x *Exec) closureCall(fr *Frame, st *State, ins ssa.Instruction, cc *ssa.CallCommon, c *closure, res ssa.Value) {
	x.staticCall(fr, st, ins, cc, c.fn, c, res)
}

func (x *Exec) invoke(fr *Frame, st *State, ins ssa.Instruction, cc *ssa.CallCommon, res ssa.Value) {
	recv := x.val(fr, st, cc.Value)
	x.safety(fr, "nilderef", cc.Value.Name()+"."+cc.Method.Name(), st, not(eq(iType(recv), intLit(0))), ins.Pos())
	sig := cc.Signature()
	args := append([]Term{recv}, x.args(fr, st, cc)...)
	// error.Error() and similar pure accessors: uninterpreted
	full := cc.Method.FullName()
	if x.pureByName(full) {
		x.pureCall(fr, st, full, sig, args, res)
		return
	}
	x.havocCall(fr, st, ins, "interface method "+full, sig, args, append([]ssa.Value{cc.Value}, cc.Args...), res)
}

func (x *Exec) onStack(fn *ssa.Function) bool {
	for _, f := range x.stack {
		if f == fn {
			return true
		}
	}
	return false
}

func (x *Exec) staticCall(fr *Frame, st *State, ins ssa.Instruction, cc *ssa.CallCommon, callee *ssa.Function, clo *closure, res ssa.Value) {
	sig := callee.Signature
	if isIntrinsic(callee) {
		x.intrinsic(fr, st, ins, cc, callee, res)
		return
	}
	// bound method closure ($bound): receiver is the single free variable
	if callee.Synthetic != "" && strings.HasSuffix(callee.Name(), "$bound") && clo != nil {
		// body: calls the method with receiver = freevar 0
		x.inlineCall(fr, st, ins, callee, clo, x.args(fr, st, cc), res)
		return
	}
	args := x.args(fr, st, cc)
	full := callee.String()
	if callee.Name() == "init" && callee.Pkg != nil && x.root != nil && callee.Pkg != x.root.fn.Pkg {
		// initialisers of other packages cannot reach this package's globals
		return
	}
	if callee.Name() == "ssa:deferstack" {
		fr.regs[res] = intLit(0)
		return
	}
	if strings.HasPrefix(callee.Name(), "vs_") || (callee.Parent() != nil && strings.HasPrefix(callee.Parent().Name(), "vs_")) {
		// ghost function: always inlined. A recursive ghost predicate is its own uninterpreted
		// symbol at the recursive occurrence; every outer call unfolds it once and records
		// symbol(args) == unfolding (so facts about inner instances come from the calls made on them).
		if x.onStack(callee) {
			x.pureCall(fr, st, "rec "+callee.String(), sig, args, res)
			return
		}
		if clo == nil && x.isRecursiveGhost(callee) && callee.Signature.Results().Len() == 1 {
			vals := x.inlineRun(fr, st, callee, clo, args, ins.Pos())
			x.pureCall(fr, st, "rec "+callee.String(), sig, args, res)
			if x.vc.noName == 0 {
				x.vc.assert(eq(fr.regs[res], vals[0]))
			} else {
				fr.regs[res] = vals[0]
			}
			return
		}
		if clo == nil && x.isOpaqueGhost(callee) && callee.Signature.Results().Len() == 1 {
			x.opaqueCall(fr, st, ins, callee, args, res)
			return
		}
		x.inlineCall(fr, st, ins, callee, clo, args, res)
		return
	}
	if c := x.eng.Contracts[callee]; c != nil && clo == nil && !c.Inline {
		x.contractCall(fr, st, ins, c, args, cc.Args, res)
		return
	}
	if x.libModel(fr, st, ins, callee, args, cc.Args, res) {
		return
	}
	if x.pureByName(full) || x.isPureExternal(callee) {
		x.pureCall(fr, st, full, sig, args, res)
		return
	}
	if x.canInline(callee) && !x.onStack(callee) && fr.depth < 12 && !x.thinSkip(callee) {
		x.inlineCall(fr, st, ins, callee, clo, args, res)
		return
	}
	x.havocCall(fr, st, ins, full, sig, args, cc.Args, res)
}

// canInline decides whether a callee without contract is executed in place.
func (x *Exec) canInline(fn *ssa.Function) bool {
	if v, ok := x.eng.inlineOK[fn]; ok {
		return v == 1
	}
	ok := func() bool {
		if fn.Pkg == nil && fn.Parent() == nil {
			return false
		}
		pkg := fn.Pkg
		if pkg == nil && fn.Parent() != nil {
			pkg = fn.Parent().Pkg
		}
		if pkg == nil {
			return false
		}
		path := pkg.Pkg.Path()
		allowed := strings.HasPrefix(path, modPath) || strings.HasPrefix(path, "github.com/go-openapi/spec") ||
			strings.HasPrefix(path, "github.com/go-openapi/analysis") ||
			fn.String() == "(*github.com/go-openapi/loads.Document).Spec" // the getter of the loaded document: return d.spec
		if !allowed {
			return false
		}
		x.eng.ensureBuilt(fn)
		if len(fn.Blocks) == 0 {
			return false
		}
		n := 0
		for _, b := range fn.Blocks {
			n += len(b.Instrs)
			for _, ins := range b.Instrs {
				switch ins.(type) {
				case *ssa.Go, *ssa.Select, *ssa.Send, *ssa.MakeChan:
					return false
				}
			}
		}
		if n > 900 {
			return false
		}
		if fn.Recover != nil && callsRecover(fn) {
			return false // a function that recovers from panics continues where our model ends the path
		}
		return true
	}()
	if ok {
		x.eng.inlineOK[fn] = 1
	} else {
		x.eng.inlineOK[fn] = 2
	}
	return ok
}

// thinSkip: in a unit marked noinline, callees without contract are havocked rather than executed
// in place, unless they are small leaves.
func (x *Exec) thinSkip(callee *ssa.Function) bool {
	if x.root == nil || x.root.contract == nil || !x.root.contract.NoInline {
		return false
	}
	n := 0
	for _, b := range callee.Blocks {
		n += len(b.Instrs)
	}
	return n > 60
}

// callsRecover: the function or one of its function literals calls the builtin recover.
func callsRecover(fn *ssa.Function) bool {
	for _, b := range fn.Blocks {
		for _, ins := range b.Instrs {
			if c, ok := ins.(ssa.CallInstruction); ok {
				if bi, ok := c.Common().Value.(*ssa.Builtin); ok && bi.Name() == "recover" {
					return true
				}
			}
		}
	}
	for _, af := range fn.AnonFuncs {
		if callsRecover(af) {
			return true
		}
	}
	return false
}

func (x *Exec) inlineCall(fr *Frame, st *State, ins ssa.Instruction, callee *ssa.Function, clo *closure, args []Term, res ssa.Value) {
	vals := x.inlineRun(fr, st, callee, clo, args, ins.Pos())
	x.setResult(fr, res, callee.Signature, vals)
}

// inlineRun executes callee in place; st is updated to the exit state.
func (x *Exec) inlineRun(fr *Frame, st *State, callee *ssa.Function, clo *closure, args []Term, pos token.Pos) []Term {
	x.eng.ensureBuilt(callee)
	if !fr.spec {
		x.inlined[shortFn(callee)] = true
	}
	nf := x.newFrame(callee, fr)
	nf.callSite = posStr(x.eng.Fset, pos)
	if len(args) != len(callee.Params) {
		panic(engErr("arity mismatch calling %s: %d args, %d params", callee, len(args), len(callee.Params)))
	}
	for i, p := range callee.Params {
		nf.regs[p] = args[i]
	}
	if clo != nil {
		nf.freeVars = clo.boundLV
		nf.freeVals = clo.bound
	} else if len(callee.FreeVars) > 0 {
		panic(engErr("closure %s called without bindings", callee))
	}
	x.stack = append(x.stack, callee)
	exit, vals := x.runFunction(nf, st.clone())
	x.stack = x.stack[:len(x.stack)-1]
	// copy exit state into st (st is the caller's mutable state object)
	reach := st.reach
	*st = *exit
	// the callee may not return on some paths (panic): reach is what returns
	_ = reach
	return vals
}

// ---------------------------------------------------------------------------
// ghost evaluation (two passes when vs_old is used)

func usesOld(fn *ssa.Function, seen map[*ssa.Function]bool) bool {
	if seen[fn] {
		return false
	}
	seen[fn] = true
	for _, b := range fn.Blocks {
		for _, ins := range b.Instrs {
			if c, ok := ins.(ssa.CallInstruction); ok {
				if callee := c.Common().StaticCallee(); callee != nil {
					if intrinsicName(callee) == "vs_old" {
						return true
					}
				}
			}
			if mc, ok := ins.(*ssa.MakeClosure); ok {
				if usesOld(mc.Fn.(*ssa.Function), seen) {
					return true
				}
			}
		}
	}
	return false
}

// usesCallHistory: the ghost function (or a function literal / ghost function it uses) reads the
// call history of the function under verification.
func usesCallHistory(fn *ssa.Function, seen map[*ssa.Function]bool) bool {
	if seen[fn] {
		return false
	}
	seen[fn] = true
	for _, b := range fn.Blocks {
		for _, ins := range b.Instrs {
			if c, ok := ins.(ssa.CallInstruction); ok {
				if callee := c.Common().StaticCallee(); callee != nil {
					switch intrinsicName(callee) {
					case "vs_called", "vs_callArg", "vs_callResult", "vs_callOrder":
						return true
					}
					if strings.HasPrefix(callee.Name(), "vs_") && usesCallHistory(callee, seen) {
						return true
					}
				}
			}
			if mc, ok := ins.(*ssa.MakeClosure); ok {
				if usesCallHistory(mc.Fn.(*ssa.Function), seen) {
					return true
				}
			}
		}
	}
	return false
}

// evalGhost evaluates a boolean (or any single-result) ghost function in state
// st, with old referring to state old.
func (x *Exec) evalGhost(fr *Frame, gf *ssa.Function, args, oldArgs []Term, st, old *State) Term {
	x.eng.ensureBuilt(gf)
	if x.ghostDepth == 0 {
		x.vc.lets = map[string][]letDef{}
	}
	x.ghostDepth++
	defer func() { x.ghostDepth-- }()
	run := func(as []Term, s *State, shared map[ssa.Value]Term, pass1 bool) Term {
		nf := x.newFrame(gf, fr)
		nf.spec = true
		nf.pass1 = pass1
		nf.oldRegs = shared
		nf.specOldState = old
		if len(as) != len(gf.Params) {
			panic(engErr("ghost %s: %d args for %d params", gf.Name(), len(as), len(gf.Params)))
		}
		for i, p := range gf.Params {
			nf.regs[p] = as[i]
		}
		x.stack = append(x.stack, gf)
		sc := s.clone()
		sc.reach = tTrue
		_, vals := x.runFunction(nf, sc)
		x.stack = x.stack[:len(x.stack)-1]
		if len(vals) != 1 {
			panic(engErr("ghost %s must have one result", gf.Name()))
		}
		return vals[0]
	}
	if old != nil && usesOld(gf, map[*ssa.Function]bool{}) {
		if oldArgs == nil {
			oldArgs = args
		}
		shared := map[ssa.Value]Term{}
		savedRec := x.vc.recordPass1
		x.vc.recordPass1 = true
		run(oldArgs, old, shared, true)
		x.vc.recordPass1 = savedRec
		return run(args, st, shared, false)
	}
	return run(args, st, nil, false)
}

// ---------------------------------------------------------------------------
// contracts at call sites

func (x *Exec) ghostOf(c *Contract, name string) *ssa.Function {
	gf := x.eng.ghostFunc(c.PkgPath, name)
	if gf == nil {
		panic(engErr("ghost function %s not found", name))
	}
	return gf
}

// modTargets evaluates the modifies clause of c for the given arguments.
func (x *Exec) evalModifies(fr *Frame, c *Contract, args []Term, st *State) []*LVal {
	if c.ModGhost == "" {
		return nil
	}
	gf := x.ghostOf(c, c.ModGhost)
	x.eng.ensureBuilt(gf)
	nf := x.newFrame(gf, fr)
	nf.spec = true
	for i, p := range gf.Params {
		nf.regs[p] = args[i]
	}
	x.modCollect = &[]*LVal{}
	defer func() { x.modCollect = nil }()
	x.stack = append(x.stack, gf)
	x.runFunction(nf, st.clone())
	x.stack = x.stack[:len(x.stack)-1]
	return *x.modCollect
}

func (x *Exec) contractCall(fr *Frame, st *State, ins ssa.Instruction, c *Contract, args []Term, argVals []ssa.Value, res ssa.Value) {
	vc := x.vc
	pos := ins.Pos()
	if fr.spec && !(c.Pure || (c.HasMod && len(c.Modifies) == 0)) {
		panic(engErr("ghost code calls %s, which is not pure", c.Key))
	}
	// 1. preconditions
	if !fr.spec {
		for i, cl := range c.Requires {
			if skipClause(cl, x.eng) {
				// a precondition tagged with a property is an obligation of callers only in that
				// property's check (and an assumption of the callee's proof everywhere)
				continue
			}
			t := x.evalGhost(fr, x.ghostOf(c, cl.Ghost), args, nil, st, nil)
			x.oblige(fr, "requires@call", fmt.Sprintf("%s pre %d: %s", c.Key, i+1, cl.Orig), st, t, pos)
		}
	}
	if vc.noName > 0 {
		// inside a quantifier body only pure functions may be called: the result is the
		// function's uninterpreted symbol applied to the arguments; its postconditions are
		// not instantiated here (they are at every call outside a binder).
		if !c.Pure {
			panic(engErr("call of non-pure %s inside quantifier body", c.Key))
		}
		sig := c.Fn.Signature
		var results []Term
		for i := 0; i < sig.Results().Len(); i++ {
			results = append(results, x.pureResult(c, i, args, sig.Results().At(i).Type(), st))
		}
		x.setResult(fr, res, sig, results)
		return
	}
	pre := st.clone()
	// 2. frame
	if !c.Pure && !fr.spec {
		if !c.HasMod {
			// unspecified frame: everything reachable from the arguments may change
			x.havocReachable(fr, st, c.Fn.Signature, args, argVals, "contract without modifies: "+c.Key, pos)
		} else {
			targets := x.evalModifies(fr, c, args, pre)
			for _, t := range targets {
				x.frameCheckLVal(fr, st, t, "modifies of "+c.Key, pos)
				x.havocLVal(st, t)
				st.dirtyOld = true
				if hn := x.lvHeapName(t); hn != "" {
					st.markDirty(hn)
				} else if t.typ != nil {
					if mt, ok := underlying(t.typ).(*types.Map); ok {
						d, v, l := vc.mapHeaps(mt)
						st.markDirty(d.name)
						st.markDirty(v.name)
						st.markDirty(l.name)
					}
				}
			}
		}
		// allocation inside the callee
		nt := vc.fresh("top", SInt)
		vc.assert(le(st.top, nt))
		st.top = nt
		st.written["top"] = true
	}
	// 3. results
	sig := c.Fn.Signature
	var results []Term
	for i := 0; i < sig.Results().Len(); i++ {
		rt := sig.Results().At(i).Type()
		var r Term
		if c.Pure && allFirstOrder(args) && vc.noName >= 0 {
			// deterministic: uninterpreted function of arguments and the heaps it may read is
			// not expressible in general; pure results are functions of args only when no
			// argument is a reference. Otherwise a fresh value (constrained by ensures).
			r = x.pureResult(c, i, args, rt, st)
		} else {
			r = x.freshOf(st, "res_"+mangle(c.Fn.Name()), rt)
		}
		results = append(results, r)
	}
	// 4. postconditions (not while already instantiating this function's postconditions: a
	// contract may mention its own function, whose inner applications are then bare symbols)
	if x.postDepth == nil {
		x.postDepth = map[*Contract]int{}
	}
	if x.postDepth[c] > 0 {
		x.setResult(fr, res, sig, results)
		return
	}
	x.postDepth[c]++
	defer func() { x.postDepth[c]-- }()
	for _, cl := range c.Ensures {
		if cl.Known {
			continue // a clause recorded as a known finding is never assumed
		}
		if usesCallHistory(x.ghostOf(c, cl.Ghost), map[*ssa.Function]bool{}) {
			continue // speaks about the callee's own call history: meaningless in the caller's
		}
		t := x.evalGhost(fr, x.ghostOf(c, cl.Ghost), append(append([]Term{}, args...), results...), nil, st, pre)
		if vc.noName > 0 {
			panic(engErr("call by contract inside quantifier body"))
		}
		vc.assert(implies(st.reach, t))
	}
	x.setResult(fr, res, sig, results)
}

func allFirstOrder(args []Term) bool { return true }

// pureResult: result of a pure function = uninterpreted function of its
// arguments and of every heap (as whole arrays) reachable by type from them.
func (x *Exec) pureResult(c *Contract, i int, args []Term, rt types.Type, st *State) Term {
	vc := x.vc
	if vc.noName > 0 {
		// inside a binder we cannot create constants; use an uninterpreted function of the args only
		// when no heap is involved.
	}
	heaps := x.reachableHeaps(c.Fn.Signature)
	var sorts []Sort
	var all, allInit []Term
	for _, a := range args {
		sorts = append(sorts, a.Sort)
		all = append(all, a)
		allInit = append(allInit, a)
	}
	changed, dirty := false, false
	for _, h := range heaps {
		t := x.heap(st, h)
		i0 := x.heap(&State{heaps: map[string]Term{}}, h)
		sorts = append(sorts, h.sort)
		all = append(all, t)
		allInit = append(allInit, i0)
		if t.S != i0.S {
			changed = true
		}
		if st.dirty[h.name] {
			dirty = true
		}
	}
	name := fmt.Sprintf("pure_%s_%d", mangle(shortFn(c.Fn)), i)
	vc.declareFun(name, sorts, vc.sortOf(rt))
	r := app(vc.sortOf(rt), name, all...)
	if changed && !dirty && x.top0.S != "" {
		// allocation-insensitivity (as in pureCall): while no object that existed at unit entry has
		// been written, such objects refer to entry objects only; applied to arguments that denote
		// entry objects the function therefore reads the entry heaps.
		var ptypes []types.Type
		sig := c.Fn.Signature
		if sig.Recv() != nil {
			ptypes = append(ptypes, sig.Recv().Type())
		}
		for k := 0; k < sig.Params().Len(); k++ {
			ptypes = append(ptypes, sig.Params().At(k).Type())
		}
		var argsOld Term = tTrue
		for k, a := range args {
			if k >= len(ptypes) {
				break
			}
			switch underlying(ptypes[k]).(type) {
			case *types.Pointer, *types.Map:
				argsOld = and(argsOld, x.oldRef(a))
			case *types.Slice:
				argsOld = and(argsOld, le(sArr(a), x.top0))
			case *types.Interface:
				argsOld = and(argsOld, x.refsOld(a, ptypes[k], 0))
			case *types.Struct:
				argsOld = and(argsOld, x.refsOld(a, ptypes[k], 0))
			}
		}
		r = ite(argsOld, app(vc.sortOf(rt), name, allInit...), r)
	}
	if vc.noName == 0 {
		r = vc.name("pr", r)
		x.wf(st, r, rt)
	}
	return r
}

// reachableHeaps lists the heaps reachable by type from the parameters.
func (x *Exec) reachableHeaps(sig *types.Signature) []heapID {
	seen := map[string]bool{}
	var res []heapID
	var visit func(t types.Type, depth int)
	addHeap := func(h heapID) {
		if !seen[h.name] {
			seen[h.name] = true
			res = append(res, h)
		}
	}
	visited := map[string]bool{}
	visit = func(t types.Type, depth int) {
		k := typeKey(t)
		if visited[k] || depth > 8 {
			return
		}
		visited[k] = true
		switch u := underlying(t).(type) {
		case *types.Pointer:
			if a, ok := isArrayType(u.Elem()); ok {
				addHeap(x.vc.arrHeap(a.Elem()))
				visit(a.Elem(), depth+1)
			} else {
				addHeap(x.vc.objHeap(u.Elem()))
				visit(u.Elem(), depth+1)
			}
		case *types.Slice:
			addHeap(x.vc.arrHeap(u.Elem()))
			visit(u.Elem(), depth+1)
		case *types.Map:
			d, v, l := x.vc.mapHeaps(u)
			addHeap(d)
			addHeap(v)
			addHeap(l)
			visit(u.Key(), depth+1)
			visit(u.Elem(), depth+1)
		case *types.Struct:
			for i := 0; i < u.NumFields(); i++ {
				visit(u.Field(i).Type(), depth+1)
			}
		case *types.Array:
			visit(u.Elem(), depth+1)
		case *types.Interface:
			// closed world: the dynamic types are those the target packages convert to
			// interfaces and that implement this interface type
			for _, bt := range x.eng.boxedTypes() {
				if u.NumMethods() == 0 || types.Implements(bt, u) {
					visit(bt, depth+1)
				}
			}
		}
	}
	if sig.Recv() != nil {
		visit(sig.Recv().Type(), 0)
	}
	for i := 0; i < sig.Params().Len(); i++ {
		visit(sig.Params().At(i).Type(), 0)
	}
	return res
}

func (x *Exec) havocLVal(st *State, lv *LVal) {
	vc := x.vc
	if lv.typ == nil {
		panic(engErr("modifies target without type"))
	}
	switch u := underlying(lv.typ).(type) {
	case *types.Map:
		if lv.ptr.S != "" && lv.cell == nil && len(lv.path) == 0 && lv.rootT == nil {
			// map contents target (marker: rootT nil)
			d, v, l := vc.mapHeaps(u)
			m := lv.ptr
			for _, h := range []heapID{d, v, l} {
				elem := Sort(strings.TrimSuffix(strings.TrimPrefix(string(h.sort), "(Array Int "), ")"))
				nv := vc.fresh("hv", elem)
				x.setHeap(st, h, store(x.heap(st, h), m, nv))
				if h.name == l.name {
					vc.assert(le(intLit(0), nv))
				}
			}
			return
		}
	}
	nv := x.freshOf(st, "mod", lv.typ)
	x.store(st, lv, nv)
}

// ---------------------------------------------------------------------------
// frame checking in the function under verification

func (x *Exec) frameCheckStore(fr *Frame, st *State, lv *LVal, pos token.Pos) {
	if lv.cell != nil || fr.spec {
		return
	}
	x.frameCheckLVal(fr, st, lv, "store", pos)
}

func (x *Exec) frameCheckRef(fr *Frame, st *State, ref Term, what string, pos token.Pos) {
	if !x.hasMod || fr.spec {
		return
	}
	var alts []Term
	alts = append(alts, lt(x.top0, ref))
	for _, t := range x.modTargets {
		if t.rootT == nil && t.cell == nil { // map contents target
			alts = append(alts, eq(ref, t.ptr))
		}
	}
	x.oblige(fr, "frame", what, st, or(alts...), pos)
}

func (x *Exec) frameCheckLVal(fr *Frame, st *State, lv *LVal, what string, pos token.Pos) {
	if !x.hasMod || fr.spec {
		return
	}
	if lv.cell != nil {
		return
	}
	if lv.global != nil {
		for _, t := range x.modTargets {
			if t.global == lv.global {
				return
			}
		}
		x.oblige(fr, "frame", what+" global "+lv.global.Name(), st, tFalse, pos)
		return
	}
	if lv.rootT == nil { // map contents
		x.frameCheckRef(fr, st, lv.ptr, what, pos)
		return
	}
	if strings.HasPrefix(lv.ptr.S, "ref!") || strings.HasPrefix(lv.ptr.S, "mref!") {
		return // allocated in this unit: fresh by construction (ref = top+1 > top0)
	}
	var alts []Term
	alts = append(alts, lt(x.top0, lv.ptr))
	for _, t := range x.modTargets {
		if t.cell != nil || t.global != nil || t.rootT == nil {
			continue
		}
		if t.arr != lv.arr || typeKey(t.rootT) != typeKey(lv.rootT) {
			continue
		}
		c := eq(lv.ptr, t.ptr)
		// path prefix
		okPrefix := true
		if len(t.path) > len(lv.path) {
			okPrefix = false
		} else {
			for i, pe := range t.path {
				q := lv.path[i]
				if pe.isIdx != q.isIdx {
					okPrefix = false
					break
				}
				if pe.isIdx {
					c = and(c, eq(pe.idx, q.idx))
				} else if pe.field != q.field {
					okPrefix = false
					break
				}
			}
		}
		if okPrefix {
			alts = append(alts, c)
		}
	}
	x.oblige(fr, "frame", what, st, or(alts...), pos)
}

// ---------------------------------------------------------------------------
// havoc

func (x *Exec) havocCall(fr *Frame, st *State, ins ssa.Instruction, name string, sig *types.Signature, args []Term, argVals []ssa.Value, res ssa.Value) {
	if fr.spec {
		panic(engErr("ghost code calls unmodelled function %s", name))
	}
	x.havocked[name] = true
	x.havocReachable(fr, st, sig, args, argVals, name, ins.Pos())
	var results []Term
	for i := 0; i < sig.Results().Len(); i++ {
		results = append(results, x.freshOf(st, "hres", sig.Results().At(i).Type()))
	}
	nt := x.vc.fresh("top", SInt)
	x.vc.assert(le(st.top, nt))
	st.top = nt
	st.written["top"] = true
	for i, r := range results {
		switch underlying(sig.Results().At(i).Type()).(type) {
		case *types.Pointer, *types.Map:
			x.vc.assert(le(r, nt))
		}
	}
	x.setResult(fr, res, sig, results)
}

// havocReachable havocs every heap reachable by type from reference-carrying arguments.
func (x *Exec) havocReachable(fr *Frame, st *State, sig *types.Signature, args []Term, argVals []ssa.Value, why string, pos token.Pos) {
	heaps := x.reachableHeapsOfValues(argVals)
	if len(heaps) > 0 && x.hasMod {
		x.oblige(fr, "frame", "unmodelled call may write: "+why, st, tFalse, pos)
	}
	for _, h := range heaps {
		var oldH Term
		if len(x.stableFields(h.name)) > 0 {
			oldH = x.heap(st, h)
		}
		nh := x.vc.fresh(h.name, h.sort)
		st.heaps[h.name] = nh
		st.written["h:"+h.name] = true
		st.markDirty(h.name)
		if oldH.S != "" {
			x.keepStable(h.name, oldH, nh, st.top)
		}
	}
	if len(heaps) > 0 {
		x.note("havoc of %d heaps at unmodelled call %s", len(heaps), why)
	}
}

func (x *Exec) reachableHeapsOfValues(vals []ssa.Value) []heapID {
	var ps []*types.Var
	for _, v := range vals {
		ps = append(ps, types.NewVar(token.NoPos, nil, "", v.Type()))
	}
	sig := types.NewSignatureType(nil, nil, nil, types.NewTuple(ps...), nil, false)
	hs := x.reachableHeaps(sig)
	// interfaces may carry anything: be conservative and say so
	for _, v := range vals {
		if _, ok := underlying(v.Type()).(*types.Interface); ok {
			x.note("interface-typed argument passed to unmodelled call: objects behind it are assumed unchanged")
		}
	}
	return hs
}

// ---------------------------------------------------------------------------
// pure uninterpreted calls

func (x *Exec) pureCall(fr *Frame, st *State, full string, sig *types.Signature, args []Term, res ssa.Value) {
	vc := x.vc
	x.pureUsed[full] = true
	// the result is an uninterpreted function of the argument VALUES: a pointer argument is
	// replaced by the value it points to (addresses differ between copies of the same value),
	// and of the heaps reachable from the parameter types.
	var ptypes []types.Type
	if sig.Recv() != nil {
		ptypes = append(ptypes, sig.Recv().Type())
	}
	for i := 0; i < sig.Params().Len(); i++ {
		ptypes = append(ptypes, sig.Params().At(i).Type())
	}
	var all []Term
	for i, a := range args {
		if i < len(ptypes) {
			if pt, ok := underlying(ptypes[i]).(*types.Pointer); ok {
				if _, isArr := isArrayType(pt.Elem()); !isArr {
					lv := x.ptrLVal(a, ptypes[i])
					v := x.rootTerm(st, lv)
					for _, pe := range lv.path {
						if pe.isIdx {
							var es Sort
							if at, ok := isArrayType(pe.owner); ok {
								es = vc.sortOf(at.Elem())
							} else {
								es = vc.sortOf(pe.owner)
							}
							v = sel(v, pe.idx, es)
						} else {
							v = vc.field(vc.structInfoOf(pe.owner), v, pe.field)
						}
					}
					all = append(all, eqZero(a), v)
					continue
				}
			}
		}
		all = append(all, a)
	}
	heaps := x.reachableHeapsNoTop(sig)
	var cur, init []Term
	changed := false
	for _, h := range heaps {
		c := x.heap(st, h)
		i0 := x.heap(&State{heaps: map[string]Term{}}, h)
		cur = append(cur, c)
		init = append(init, i0)
		if c.S != i0.S {
			changed = true
		}
	}
	// While no object that existed at unit entry has been written, such objects cannot refer
	// to objects allocated since; a pure function applied to old arguments then reads the
	// entry heaps only (allocation-insensitivity).
	var argsOld Term = tTrue
	useInit := changed
	for _, h := range heaps {
		if st.dirty[h.name] {
			useInit = false // an object of a type the function can reach was written
		}
	}
	if useInit {
		for i, a := range args {
			if i < len(ptypes) {
				switch underlying(ptypes[i]).(type) {
				case *types.Pointer:
					// the pointee travels by value: what matters is what that value refers to
					if pt := underlying(ptypes[i]).(*types.Pointer); true {
						if _, isArr := isArrayType(pt.Elem()); isArr {
							argsOld = and(argsOld, x.oldRef(a))
						} else {
							argsOld = and(argsOld, or(eq(a, intLit(0)), x.refsOld(x.load(st, x.ptrLVal(a, ptypes[i])), pt.Elem(), 0)))
						}
					}
				case *types.Map:
					argsOld = and(argsOld, x.oldRef(a))
				case *types.Slice:
					argsOld = and(argsOld, le(sArr(a), x.top0))
				case *types.Interface:
					argsOld = and(argsOld, x.refsOld(a, ptypes[i], 0))
				case *types.Struct:
					argsOld = and(argsOld, x.refsOld(a, ptypes[i], 0))
				}
			}
		}
	}
	mk := func(hs []Term) ([]Term, []Sort) {
		a2 := append(append([]Term{}, all...), hs...)
		var so []Sort
		for _, a := range a2 {
			so = append(so, a.Sort)
		}
		return a2, so
	}
	var results []Term
	for i := 0; i < sig.Results().Len(); i++ {
		rt := sig.Results().At(i).Type()
		name := fmt.Sprintf("uf_%s_%d", mangle(strings.ReplaceAll(full, modPath+"/", "")), i)
		ac, sorts := mk(cur)
		vc.declareFun(name, sorts, vc.sortOf(rt))
		var r Term
		if len(ac) == 0 {
			r = Term{name, vc.sortOf(rt)}
		} else {
			r = app(vc.sortOf(rt), name, ac...)
			if useInit {
				ai, _ := mk(init)
				r = ite(argsOld, app(vc.sortOf(rt), name, ai...), r)
			}
		}
		if vc.noName == 0 {
			r = vc.name("uf", r)
			x.wf(st, r, rt)
			// the zero Ref renders as the empty string (jsonreference.Ref.String on a Ref without URL/pointer)
			if strings.HasSuffix(full, "spec.Ref).String") || strings.HasSuffix(full, "jsonreference.Ref).String") {
				val := all[0]
				var zt types.Type = ptypes[0]
				if pt, ok := underlying(zt).(*types.Pointer); ok {
					zt = pt.Elem()
					val = all[1]
				}
				vc.assert(implies(eq(val, vc.zero(zt)), eq(r, strLit(""))))
				x.lib(full + " (zero Ref prints as \"\")")
			}
		}
		results = append(results, r)
	}
	x.setResult(fr, res, sig, results)
}

func eqZero(a Term) Term { return eq(a, intLit(0)) }

// reachableHeapsNoTop: heaps reachable from the parameter types, excluding the object heap of
// a top-level pointer parameter itself (its pointee is passed by value).
func (x *Exec) reachableHeapsNoTop(sig *types.Signature) []heapID {
	var ps []*types.Var
	add := func(t types.Type) {
		if pt, ok := underlying(t).(*types.Pointer); ok {
			if _, isArr := isArrayType(pt.Elem()); !isArr {
				t = pt.Elem() // the pointee is passed by value; what it refers to is still reachable
			}
		}
		ps = append(ps, types.NewVar(token.NoPos, nil, "", t))
	}
	if sig.Recv() != nil {
		add(sig.Recv().Type())
	}
	for i := 0; i < sig.Params().Len(); i++ {
		add(sig.Params().At(i).Type())
	}
	return x.reachableHeaps(types.NewSignatureType(nil, nil, nil, types.NewTuple(ps...), nil, false))
}

// functions treated as pure, deterministic and total, by full name
var pureNames = map[string]bool{
	"(github.com/go-openapi/spec.Ref).String":                  true,
	"(*github.com/go-openapi/spec.Ref).String":                 true,
	"(github.com/go-openapi/jsonreference.Ref).String":         true,
	"(*github.com/go-openapi/jsonreference.Ref).String":        true,
	"(github.com/go-openapi/spec.Ref).GetURL":                  true,
	"(error).Error":                                            true,
	"(*github.com/go-openapi/jsonreference.Ref).GetURL":        true,
	"(github.com/go-openapi/spec.StringOrArray).Contains":      true,
	"strings.ToLower": true, "strings.ToUpper": true, "strings.TrimSpace": true, "strings.Title": true,
	"strings.Trim": true, "strings.TrimLeft": true, "strings.TrimRight": true, "strings.Index": true, "strings.LastIndex": true,
	"strings.Replace": true, "strings.ReplaceAll": true, "strings.EqualFold": true, "strings.Count": true,
	"strings.TrimFunc": true, "strings.IndexByte": true, "strings.IndexRune": true, "strings.Repeat": true,
	"strconv.Itoa": true, "strconv.Quote": true, "strconv.FormatInt": true, "strconv.FormatBool": true, "strconv.CanBackquote": true,
	"strconv.Atoi": true, "strconv.ParseInt": true, "strconv.ParseFloat": true, "strconv.ParseBool": true, "strconv.Unquote": true, "strconv.ParseUint": true,
	"path.Base": true, "path.Dir": true, "path.Clean": true, "path.Ext": true,
	"path/filepath.Base": true, "path/filepath.Dir": true, "path/filepath.Clean": true, "path/filepath.Ext": true,
	"path/filepath.ToSlash": true, "path/filepath.FromSlash": true, "path/filepath.IsAbs": true,
	"unicode.IsUpper": true, "unicode.IsLower": true, "unicode.IsLetter": true, "unicode.IsDigit": true, "unicode.IsSpace": true,
	"unicode.ToUpper": true, "unicode.ToLower": true, "unicode.IsNumber": true, "unicode.IsPunct": true,
	"unicode/utf8.RuneCountInString": true, "unicode/utf8.ValidString": true,
	"github.com/go-openapi/swag.ToGoName": true, "github.com/go-openapi/swag.ToVarName": true, "github.com/go-openapi/swag.ToFileName": true,
	"github.com/go-openapi/swag.ToJSONName": true, "github.com/go-openapi/swag.ToHumanNameLower": true, "github.com/go-openapi/swag.ToHumanNameTitle": true,
	"github.com/go-openapi/swag.ToCommandName": true, "github.com/go-openapi/swag.Camelize": true,
	"github.com/go-openapi/swag.ContainsStringsCI": true, "github.com/go-openapi/swag.ContainsStrings": true,
	"github.com/go-openapi/inflect.Pluralize": true, "github.com/go-openapi/inflect.Singularize": true,
	"reflect.DeepEqual": true, "errors.Is": true, "github.com/go-openapi/swag.IsZero": true,
	"os.Getenv": true, "(reflect.StructTag).Get": true,
	"(*github.com/go-openapi/analysis.Spec).SecurityRequirementsFor": true, "(*github.com/go-openapi/analysis.Spec).SecurityDefinitionsFor": true,
}

func (x *Exec) pureByName(full string) bool { return pureNames[full] }

func (x *Exec) isPureExternal(fn *ssa.Function) bool { return pureNames[fn.String()] }

var debugCovers = os.Getenv("GOCV_DEBUG_COVERS") == "1"

// boxedTypes: every concrete type that code of the target packages (ghost code excluded)
// converts to an interface. Used as the closed world of dynamic types behind interface-typed
// parameters of pure functions.
func (e *Engine) boxedTypes() []types.Type {
	if e.boxed != nil {
		return e.boxed
	}
	seen := map[string]bool{}
	var res []types.Type
	var walk func(fn *ssa.Function)
	walk = func(fn *ssa.Function) {
		if strings.HasPrefix(fn.Name(), "vs_") {
			return
		}
		for _, b := range fn.Blocks {
			for _, ins := range b.Instrs {
				if mi, ok := ins.(*ssa.MakeInterface); ok {
					k := typeKey(mi.X.Type())
					if !seen[k] {
						seen[k] = true
						res = append(res, mi.X.Type())
					}
				}
			}
		}
		for _, af := range fn.AnonFuncs {
			walk(af)
		}
	}
	paths := make([]string, 0, len(e.Targets))
	for p := range e.Targets {
		paths = append(paths, p)
	}
	sort.Strings(paths)
	for _, p := range paths {
		tp := e.Targets[p]
		names := make([]string, 0, len(tp.SSA.Members))
		for n := range tp.SSA.Members {
			names = append(names, n)
		}
		sort.Strings(names)
		for _, n := range names {
			switch m := tp.SSA.Members[n].(type) {
			case *ssa.Function:
				walk(m)
			case *ssa.Type:
				for _, t := range []types.Type{m.Type(), types.NewPointer(m.Type())} {
					ms := e.Prog.MethodSets.MethodSet(t)
					for i := 0; i < ms.Len(); i++ {
						if mf := e.Prog.MethodValue(ms.At(i)); mf != nil && mf.Pkg == tp.SSA {
							walk(mf)
						}
					}
				}
			}
		}
	}
	sort.Slice(res, func(i, j int) bool { return typeKey(res[i]) < typeKey(res[j]) })
	if res == nil {
		res = []types.Type{}
	}
	e.boxed = res
	return res
}

// isRecursiveGhost: the ghost function calls itself (directly).
func (x *Exec) isRecursiveGhost(fn *ssa.Function) bool {
	if v, ok := x.eng.recGhost[fn]; ok {
		return v
	}
	rec := false
	x.eng.ensureBuilt(fn)
	for _, b := range fn.Blocks {
		for _, ins := range b.Instrs {
			if c, ok := ins.(ssa.CallInstruction); ok && c.Common().StaticCallee() == fn {
				rec = true
			}
		}
	}
	if x.eng.recGhost == nil {
		x.eng.recGhost = map[*ssa.Function]bool{}
	}
	x.eng.recGhost[fn] = rec
	return rec
}

// oldRef: the reference denotes nil, an object that existed at unit entry, or (for virtual
// references) a location inside such an object.
func (x *Exec) oldRef(a Term) Term {
	if lv, ok := x.virt[a.S]; ok {
		if lv.cell != nil {
			return tFalse
		}
		if lv.global != nil {
			return tTrue
		}
		return le(lv.ptr, x.top0)
	}
	return le(a, x.top0)
}

// refsOld: every reference held directly (by value, through nested structs and arrays) in
// the value v of type t denotes an object that existed at unit entry.
func (x *Exec) refsOld(v Term, t types.Type, depth int) Term {
	if depth > 4 {
		return x.refsOldUnknown
	}
	switch u := underlying(t).(type) {
	case *types.Pointer, *types.Map, *types.Chan, *types.Signature:
		return le(v, x.top0)
	case *types.Slice:
		return le(sArr(v), x.top0)
	case *types.Interface:
		// a reference carried by the interface value is old. A10: a struct or slice carried BY VALUE
		// in an interface is taken to hold old references only (tracking it with a predicate made
		// the quantifier-heavy diff proofs unstable; see DESIGN.md section 12)
		x.vc.declareFun("isref", []Sort{SInt}, SBool)
		return implies(app(SBool, "isref", iType(v)), le(iVal(v), x.top0))
	case *types.Struct:
		si := x.vc.structInfoOf(t)
		var cs []Term
		for i := 0; i < u.NumFields(); i++ {
			switch underlying(u.Field(i).Type()).(type) {
			case *types.Basic:
				continue
			}
			cs = append(cs, x.refsOld(x.vc.field(si, v, i), u.Field(i).Type(), depth+1))
		}
		return and(cs...)
	case *types.Basic:
		return tTrue
	}
	return x.refsOldUnknown
}

// isOpaqueGhost: the ghost function's doc comment carries the directive vs:opaque.
func (x *Exec) isOpaqueGhost(fn *ssa.Function) bool {
	if v, ok := x.eng.opaque[fn]; ok {
		return v
	}
	res := false
	if fd, ok := fn.Syntax().(*ast.FuncDecl); ok && fd.Doc != nil {
		res = strings.Contains(fd.Doc.Text(), "vs:opaque")
	}
	if x.eng.opaque == nil {
		x.eng.opaque = map[*ssa.Function]bool{}
	}
	x.eng.opaque[fn] = res
	return res
}

// opaqueCall: an opaque ghost predicate is an uninterpreted symbol; its definition is supplied
// as an axiom  forall V. P(args) == body(args)  with P(args) as the instantiation pattern,
// where V generalises exactly the argument positions that mention quantified variables at
// this call site (none outside quantifiers: then the axiom is the single instance). This
// gives quantified specifications over the predicate a usable trigger.
func (x *Exec) opaqueCall(fr *Frame, st *State, ins ssa.Instruction, callee *ssa.Function, args []Term, res ssa.Value) {
	vc := x.vc
	sig := callee.Signature
	full := "opq " + callee.String()
	// heaps built inside an enclosing quantifier body (allocations made there) cannot appear
	// in a closed axiom: such a call is simply unfolded
	for _, h := range x.reachableHeapsNoTop(sig) {
		ht := x.heap(st, h).S
		if strings.Contains(ht, "l!") || strings.Contains(ht, "bv!") {
			x.inlineCall(fr, st, ins, callee, nil, args, res)
			return
		}
	}
	// the application itself
	x.pureCall(fr, st, full, sig, args, res)
	app0 := fr.regs[res]
	// axiom key: callee + the non-quantified arguments (+ heap versions, through the application text of a probe)
	gen := make([]bool, len(args))
	anyGen := false
	var keyParts []string
	for i, a := range args {
		if strings.Contains(a.S, "bv!") || strings.Contains(a.S, "l!") || strings.Contains(a.S, "ax!") {
			gen[i] = true
			anyGen = true
			keyParts = append(keyParts, "?")
		} else {
			keyParts = append(keyParts, a.S)
		}
	}
	var heapSig []string
	for _, h := range x.reachableHeapsNoTop(sig) {
		heapSig = append(heapSig, x.heap(st, h).S)
	}
	key := callee.String() + "|" + strings.Join(keyParts, "|") + "|" + strings.Join(heapSig, ",")
	if x.opqDone == nil {
		x.opqDone = map[string]bool{}
	}
	if x.opqDone[key] {
		return
	}
	x.opqDone[key] = true
	// build the axiom in a fresh binder
	name := fmt.Sprintf("opq!%d", len(x.opqDone))
	saveStack, saveBinders, saveNo := vc.letStack, vc.binders, vc.noName
	vc.letStack, vc.binders, vc.noName = nil, nil, 0
	x.ghostDepth++
	var decl []string
	a2 := make([]Term, len(args))
	for i, a := range args {
		if gen[i] {
			bv := Term{fmt.Sprintf("bv!%s!%d", name, i), a.Sort}
			a2[i] = bv
			decl = append(decl, fmt.Sprintf("(%s %s)", bv.S, bv.Sort))
		} else {
			a2[i] = a
		}
	}
	var axiom string
	func() {
		defer func() {
			if r := recover(); r != nil {
				if _, ok := r.(*engError); ok {
					axiom = ""
					return
				}
				panic(r)
			}
		}()
		if anyGen {
			vc.openBinder(name)
		}
		s2 := st.clone()
		s2.reach = tTrue
		// application with generalised arguments
		tmpFr := x.newFrame(fr.fn, fr)
		tmpFr.spec = true
		x.pureCall(tmpFr, s2, full, sig, a2, res)
		appG := tmpFr.regs[res]
		vals := x.inlineRun(tmpFr, s2, callee, nil, a2, ins.Pos())
		body := eq(appG, vals[0])
		if anyGen {
			b2, _ := vc.closeBinder(body)
			axiom = fmt.Sprintf("(forall (%s) (! %s :pattern (%s)))", strings.Join(decl, " "), b2.S, appG.S)
		} else {
			axiom = body.S
		}
	}()
	x.ghostDepth--
	vc.letStack, vc.binders, vc.noName = saveStack, saveBinders, saveNo
	fr.regs[res] = app0
	if axiom == "" {
		return
	}
	if vc.noName == 0 {
		vc.assert(Term{axiom, SBool})
	} else {
		x.pendingAxioms = append(x.pendingAxioms, axiom)
	}
}

// flushAxioms asserts axioms that were produced while a quantifier body was being built.
func (x *Exec) flushAxioms() {
	if x.vc.noName != 0 || len(x.pendingAxioms) == 0 {
		return
	}
	ax := x.pendingAxioms
	x.pendingAxioms = nil
	for _, a := range ax {
		x.vc.assert(Term{a, SBool})
	}
}
