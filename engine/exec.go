package main

// Symbolic execution of go/ssa (naive form) into passive-form verification
// conditions. One Exec per verification unit (a function under contract or a
// lemma harness).

import (
	"fmt"
	"go/token"
	"go/types"
	"sort"
	"strings"

	"golang.org/x/tools/go/ssa"
)

type cellKey struct {
	fr int
	a  *ssa.Alloc
}

type pathElem struct {
	isIdx bool
	field int
	idx   Term
	owner types.Type // struct type for field elems, array type for idx elems
}

// LVal is a tool-level address.
type LVal struct {
	cell   *cellKey
	global *ssa.Global
	ptr    Term       // heap root reference
	rootT  types.Type // type of root object (pointee / cell content / array element for arr roots)
	arr    bool       // root lives in the backing-array heap A_rootT; path[0] is an index
	path   []pathElem
	typ    types.Type // type of the addressed location
}

type closure struct {
	fn       *ssa.Function
	bindings []ssa.Value
	fr       *Frame // frame in which bindings are evaluated
	bound    []Term // evaluated bindings (values)
	boundLV  []*LVal
	recv     *Term // bound method receiver
}

type Frame struct {
	id       int
	fn       *ssa.Function
	regs     map[ssa.Value]Term
	tuples   map[ssa.Value][]Term
	lvals    map[ssa.Value]*LVal
	clos     map[ssa.Value]*closure
	parent   *Frame
	spec     bool // ghost evaluation: no obligations, no heap writes
	safety   bool
	oldRegs  map[ssa.Value]Term // pass-1 values for vs_old
	oldTup   map[ssa.Value][]Term
	pass1    bool
	contract *Contract // when this is the function under verification
	freeVars []*LVal   // for closures: addresses of captured variables
	freeVals []Term
	returns  []retInfo
	depth    int
	defers   []deferred
	entry    *State // state at function entry (for old / frame)
	callSite string
	ranges   []*ssa.Range
	specOldState *State
	loopHead map[*ssa.BasicBlock]*State // state at the head of each loop (after the cut), for step clauses
}

type deferred struct {
	call  *ssa.Defer
	reach Term
}

type retInfo struct {
	st   *State
	vals []Term
}

type State struct {
	reach   Term
	cells   map[cellKey]Term
	globals map[*ssa.Global]Term
	heaps   map[string]Term
	top     Term
	iters   map[cellKey2]Term
	written map[string]bool
	effects Term // ghost effect counter / log (file-system writes)
	dirtyOld bool // some object that existed at unit entry may have been written (or havocked)
	dirty    map[string]bool // ... per heap name
	calls    map[string]*callRec // call history of the unit's own function (ghost): last call per callee name
}

type callRec struct {
	called  Term
	args    []Term
	results []Term
	seq     Term // position of the call in the unit's call sequence (program order); 0 = never called
}

type cellKey2 struct {
	fr int
	r  *ssa.Range
}

func (s *State) clone() *State {
	n := &State{reach: s.reach, top: s.top, effects: s.effects, dirtyOld: s.dirtyOld,
		cells: make(map[cellKey]Term, len(s.cells)), globals: make(map[*ssa.Global]Term, len(s.globals)),
		heaps: make(map[string]Term, len(s.heaps)), iters: make(map[cellKey2]Term, len(s.iters)), written: make(map[string]bool, len(s.written))}
	for k, v := range s.cells {
		n.cells[k] = v
	}
	for k, v := range s.globals {
		n.globals[k] = v
	}
	for k, v := range s.heaps {
		n.heaps[k] = v
	}
	for k, v := range s.iters {
		n.iters[k] = v
	}
	for k, v := range s.written {
		n.written[k] = v
	}
	if len(s.calls) > 0 {
		n.calls = make(map[string]*callRec, len(s.calls))
		for k, v := range s.calls {
			n.calls[k] = v
		}
	}
	if len(s.dirty) > 0 {
		n.dirty = make(map[string]bool, len(s.dirty))
		for k := range s.dirty {
			n.dirty[k] = true
		}
	}
	return n
}

func (s *State) markDirty(heap string) {
	s.dirtyOld = true
	if s.dirty == nil {
		s.dirty = map[string]bool{}
	}
	s.dirty[heap] = true
}

type Obligation struct {
	Name   string
	Kind   string
	Func   string
	Unit   string
	Upto   int
	Path   Term
	Goal   Term
	Pos    string
	Cover  bool // expected sat
	Props  []string
	vc     *VC
	Result *SolveResult
	Detail string
	Ghost  string
	x      *Exec
	NoRetry bool
	Cubes  []Term // branch conditions of the unit's own top-level ifs, defined before this obligation (case-split candidates)
}

type Exec struct {
	eng      *Engine
	vc       *VC
	unit     string
	props    []string
	obls     []*Obligation
	nframes  int
	stack    []*ssa.Function
	ordinals map[string]int
	initHeap map[string]Term
	initGlob map[*ssa.Global]Term
	top0     Term
	root     *Frame
	modTargets []*LVal // modifies targets of the function under verification (entry state)
	hasMod   bool
	inlined  map[string]bool
	havocked map[string]bool
	pureUsed map[string]bool
	dry      int
	unsupported []string
	modCollect *[]*LVal
	refsOldUnknown Term // what refsOld answers when it cannot tell: false where it justifies a step, true where it is assumed
	opqDone    map[string]bool
	pendingAxioms []string
	heapElemType map[string]types.Type
	postDepth  map[*Contract]int
	virt       map[string]*LVal
	virtByKey  map[string]Term
	wfDepth int
	wfDeep bool
	curGhost string
	ghostDepth int
	rootParams []Term
	lemmaMode bool
	initMode bool
	callSeq  int
	branches []branchCond
}

type branchCond struct {
	t    Term
	upto int
}

func newExec(e *Engine, unit string, props []string) *Exec {
	x := &Exec{eng: e, vc: newVC(e), unit: unit, props: props, refsOldUnknown: tFalse, ordinals: map[string]int{}, initHeap: map[string]Term{}, initGlob: map[*ssa.Global]Term{},
		inlined: map[string]bool{}, havocked: map[string]bool{}, pureUsed: map[string]bool{}}
	return x
}

func (x *Exec) newFrame(fn *ssa.Function, parent *Frame) *Frame {
	x.nframes++
	fr := &Frame{id: x.nframes, fn: fn, regs: map[ssa.Value]Term{}, tuples: map[ssa.Value][]Term{}, lvals: map[ssa.Value]*LVal{}, clos: map[ssa.Value]*closure{}, parent: parent}
	if parent != nil {
		fr.depth = parent.depth + 1
		fr.spec = parent.spec
		fr.safety = parent.safety
	}
	return fr
}

func posStr(fset *token.FileSet, p token.Pos) string {
	if !p.IsValid() {
		return ""
	}
	ps := fset.Position(p)
	return fmt.Sprintf("%s:%d", strings.TrimPrefix(ps.Filename, repoDir+"/"), ps.Line)
}

func shortFn(fn *ssa.Function) string {
	s := fn.String()
	s = strings.ReplaceAll(s, modPath+"/", "")
	s = strings.ReplaceAll(s, "cmd/swagger/commands/", "")
	return s
}

// oblige records an obligation to be discharged.
func (x *Exec) oblige(fr *Frame, kind, snippet string, st *State, goal Term, pos token.Pos) {
	if goal.S == "true" && kind != "cover" {
		// trivially true: still counted, discharged syntactically
	}
	owner := fr
	for owner.parent != nil && owner.contract == nil {
		owner = owner.parent
	}
	fname := shortFn(fr.fn)
	base := fmt.Sprintf("%s#%s[%s]", fname, kind, snippet)
	if fr != x.root && fr.callSite != "" {
		base = fmt.Sprintf("%s#%s[%s]@%s", shortFn(x.root.fn), kind, snippet, fname)
	}
	x.ordinals[base]++
	name := base
	if n := x.ordinals[base]; n > 1 {
		name = fmt.Sprintf("%s#%d", base, n)
	}
	o := &Obligation{Name: name, Kind: kind, Func: fname, Unit: x.unit, Upto: len(x.vc.asserts), Path: st.reach, Goal: goal, Pos: posStr(x.eng.Fset, pos), Props: x.props, vc: x.vc, Cover: kind == "cover", x: x, Ghost: x.curGhost}
	for _, bc := range x.branches {
		if bc.upto <= o.Upto && len(o.Cubes) < 4 {
			o.Cubes = append(o.Cubes, bc.t)
		}
	}
	x.obls = append(x.obls, o)
}

// ---------------------------------------------------------------------------
// heaps, cells

func (x *Exec) heap(st *State, h heapID) Term {
	if t, ok := st.heaps[h.name]; ok {
		return t
	}
	t, ok := x.initHeap[h.name]
	if !ok {
		t = Term{h.name + "!0", h.sort}
		x.vc.decls = append(x.vc.decls, fmt.Sprintf("(declare-const %s %s)", t.S, h.sort))
		x.initHeap[h.name] = t
		x.entryClosure(h, t)
	}
	return t
}

// entryClosure: objects that exist at unit entry refer only to objects that exist at entry
// (a quantified fact about the entry heap, instantiated by reads of that heap).
func (x *Exec) entryClosure(h heapID, t Term) {
	et := x.vc.heapTypes[h.name]
	if et == nil || x.top0.S == "" {
		return
	}
	save := x.vc.noName
	x.vc.noName = 1 // build the body without naming
	saveU := x.refsOldUnknown
	x.refsOldUnknown = tTrue
	defer func() { x.vc.noName = save; x.refsOldUnknown = saveU }()
	var body Term
	var pat string
	if strings.HasPrefix(h.name, "A_") {
		es := x.vc.sortOf(et)
		el := Term{"(select (select " + t.S + " r!c) i!c)", es}
		body = x.refsOld(el, et, 0)
		pat = el.S
		if body.S == "true" {
			return
		}
		x.vc.decls = append(x.vc.decls, fmt.Sprintf("(assert (forall ((r!c Int) (i!c Int)) (! (=> (<= r!c %s) %s) :pattern (%s))))", x.top0.S, body.S, pat))
		return
	}
	if !strings.HasPrefix(h.name, "H_") {
		return
	}
	el := Term{"(select " + t.S + " r!c)", x.vc.sortOf(et)}
	body = x.refsOld(el, et, 0)
	if body.S == "true" {
		return
	}
	x.vc.decls = append(x.vc.decls, fmt.Sprintf("(assert (forall ((r!c Int)) (! (=> (and (<= 1 r!c) (<= r!c %s)) %s) :pattern (%s))))", x.top0.S, body.S, el.S))
}

func (x *Exec) setHeap(st *State, h heapID, t Term) {
	st.heaps[h.name] = x.vc.name(h.name, t)
	st.written["h:"+h.name] = true
}

func (x *Exec) globalVal(st *State, g *ssa.Global) Term {
	if t, ok := st.globals[g]; ok {
		return t
	}
	t, ok := x.initGlob[g]
	if !ok {
		et := g.Type().(*types.Pointer).Elem()
		t = x.vc.fresh("G_"+mangle(g.Name()), x.vc.sortOf(et))
		x.initGlob[g] = t
		x.wf(st, t, et)
	}
	return t
}

// elemType of pointer-ish type
func derefType(t types.Type) types.Type {
	if p, ok := types.Unalias(t).Underlying().(*types.Pointer); ok {
		return p.Elem()
	}
	panic(engErr("not a pointer type: %s", t))
}

func isArrayType(t types.Type) (*types.Array, bool) {
	a, ok := types.Unalias(t).Underlying().(*types.Array)
	return a, ok
}

// ptrLVal makes an l-value for the object a pointer value points to.
func (x *Exec) ptrLVal(p Term, ptrType types.Type) *LVal {
	if lv, ok := x.virt[p.S]; ok {
		cp := *lv
		return &cp
	}
	et := derefType(ptrType)
	if a, ok := isArrayType(et); ok {
		return &LVal{ptr: p, rootT: a.Elem(), arr: true, typ: et}
	}
	return &LVal{ptr: p, rootT: et, typ: et}
}

func (x *Exec) rootTerm(st *State, lv *LVal) Term {
	switch {
	case lv.cell != nil:
		t, ok := st.cells[*lv.cell]
		if !ok {
			// cell not initialised on this path (alloc executed elsewhere): zero
			t = x.vc.zero(lv.rootT)
		}
		return t
	case lv.global != nil:
		return x.globalVal(st, lv.global)
	case lv.arr:
		h := x.vc.arrHeap(lv.rootT)
		return sel(x.heap(st, h), lv.ptr, arraySort(SInt, x.vc.sortOf(lv.rootT)))
	default:
		h := x.vc.objHeap(lv.rootT)
		return sel(x.heap(st, h), lv.ptr, x.vc.sortOf(lv.rootT))
	}
}

func (x *Exec) setRoot(st *State, lv *LVal, v Term) {
	switch {
	case lv.cell != nil:
		st.cells[*lv.cell] = x.vc.name("c", v)
		st.written[fmt.Sprintf("c:%d:%p", lv.cell.fr, lv.cell.a)] = true
	case lv.global != nil:
		st.globals[lv.global] = x.vc.name("g", v)
		st.written["g:"+lv.global.Name()] = true
	case lv.arr:
		h := x.vc.arrHeap(lv.rootT)
		x.setHeap(st, h, store(x.heap(st, h), lv.ptr, v))
		if !isFreshRefTerm(lv.ptr) {
			st.markDirty(h.name)
		}
	default:
		h := x.vc.objHeap(lv.rootT)
		x.setHeap(st, h, store(x.heap(st, h), lv.ptr, v))
		if !isFreshRefTerm(lv.ptr) {
			st.markDirty(h.name)
		}
	}
}

// isFreshRefTerm: the reference term names an object allocated in this unit.
func isFreshRefTerm(t Term) bool {
	return strings.HasPrefix(t.S, "ref!") || strings.HasPrefix(t.S, "mref!")
}

func (x *Exec) load(st *State, lv *LVal) Term {
	t := x.rootTerm(st, lv)
	for _, pe := range lv.path {
		if pe.isIdx {
			var es Sort
			if a, ok := isArrayType(pe.owner); ok {
				es = x.vc.sortOf(a.Elem())
			} else {
				es = x.vc.sortOf(pe.owner) // arr root: owner is the element type
			}
			t = sel(t, pe.idx, es)
		} else {
			si := x.vc.structInfoOf(pe.owner)
			t = x.vc.field(si, t, pe.field)
		}
	}
	t = x.vc.name("ld", t)
	x.wf(st, t, lv.typ)
	// closure of the entry heap: while no pre-existing object has been written, what such an
	// object refers to existed at entry as well
	if lv.cell == nil && lv.global == nil && !st.dirty[x.lvHeapName(lv)] && x.vc.noName == 0 && x.top0.S != "" && !isFreshRefTerm(lv.ptr) {
		switch underlying(lv.typ).(type) {
		case *types.Pointer, *types.Map, *types.Slice, *types.Interface:
			saveU := x.refsOldUnknown
			x.refsOldUnknown = tTrue
			x.vc.assert(implies(le(lv.ptr, x.top0), x.refsOld(t, lv.typ, 0)))
			x.refsOldUnknown = saveU
		}
	}
	return t
}

func (x *Exec) store(st *State, lv *LVal, v Term) {
	root := x.rootTerm(st, lv)
	nv := x.storePath(root, lv.path, v)
	x.setRoot(st, lv, nv)
}

func (x *Exec) storePath(cur Term, path []pathElem, v Term) Term {
	if len(path) == 0 {
		return v
	}
	pe := path[0]
	if pe.isIdx {
		var es Sort
		if a, ok := isArrayType(pe.owner); ok {
			es = x.vc.sortOf(a.Elem())
		} else {
			es = x.vc.sortOf(pe.owner)
		}
		inner := x.storePath(sel(cur, pe.idx, es), path[1:], v)
		return store(cur, pe.idx, inner)
	}
	si := x.vc.structInfoOf(pe.owner)
	inner := x.storePath(x.vc.field(si, cur, pe.field), path[1:], v)
	return x.vc.withField(si, cur, pe.field, inner)
}

// wf asserts shallow well-formedness facts of a value of the given Go type.
func (x *Exec) wf(st *State, t Term, typ types.Type) {
	if x.vc.noName > 0 {
		return
	}
	if len(t.S) > 0 && (t.S[0] == '(' && !strings.HasPrefix(t.S, "(select") && !strings.Contains(t.S, "!")) {
		// literal-ish compound terms need no facts
	}
	switch u := types.Unalias(typ).Underlying().(type) {
	case *types.Basic:
		if u.Info()&types.IsInteger != 0 && !isLiteral(t) {
			lo, hi := intRange(u)
			x.vc.assert(and(le(bigIntLit(lo), t), le(t, bigIntLit(hi))))
		}
	case *types.Slice:
		if !isLiteral(t) {
			x.vc.assert(Term{fmt.Sprintf("(and (<= 0 (s-arr %[1]s)) (= 0 (s-off %[1]s)) (<= 0 (s-len %[1]s)) (<= (s-len %[1]s) (s-cap %[1]s)) (<= (s-cap %[1]s) 9223372036854775807) (=> (= (s-arr %[1]s) 0) (= (s-cap %[1]s) 0)))", t.S), SBool})
			if st != nil {
				x.vc.assert(le(sArr(t), st.top))
			}
		}
	case *types.Pointer, *types.Map:
		// references: nil = 0, objects = 1..top, virtual references (addresses of locals and
		// interior locations, see materialize) < 0
		if !isLiteral(t) {
			if x.wfDeep {
				x.vc.assert(le(intLit(0), t)) // inputs hold no virtual references
			}
			if st != nil {
				x.vc.assert(le(t, st.top))
			}
		}
	case *types.Interface:
		if !isLiteral(t) && st != nil {
			// the nil interface is the only value without a dynamic type
			x.vc.assert(implies(eq(iType(t), intLit(0)), eq(iVal(t), intLit(0))))
			// a reference carried by an interface value refers to an existing object
			x.vc.declareFun("isref", []Sort{SInt}, SBool)
			if x.wfDeep {
				x.vc.assert(implies(app(SBool, "isref", iType(t)), and(le(intLit(0), iVal(t)), le(iVal(t), st.top))))
			} else {
				x.vc.assert(implies(app(SBool, "isref", iType(t)), le(iVal(t), st.top)))
			}
		}
	case *types.Struct:
		// references held in fields (by value) of a struct value (parameters and fresh results only)
		if !isLiteral(t) && st != nil && x.wfDeep && x.wfDepth < 3 {
			x.wfDepth++
			si := x.vc.structInfoOf(typ)
			for i := 0; i < u.NumFields(); i++ {
				switch underlying(u.Field(i).Type()).(type) {
				case *types.Pointer, *types.Map, *types.Interface, *types.Slice, *types.Struct:
					x.wf(st, x.vc.field(si, t, i), u.Field(i).Type())
				}
			}
			x.wfDepth--
		}
	}
}

func isLiteral(t Term) bool {
	if t.S == "" {
		return true
	}
	c := t.S[0]
	return c >= '0' && c <= '9' || c == '"' || strings.HasPrefix(t.S, "(- ") || strings.HasPrefix(t.S, "(mk-")
}

func intRange(b *types.Basic) (string, string) {
	switch b.Kind() {
	case types.Int8:
		return "-128", "127"
	case types.Int16:
		return "-32768", "32767"
	case types.Int32, types.UntypedRune:
		return "-2147483648", "2147483647"
	case types.Uint8:
		return "0", "255"
	case types.Uint16:
		return "0", "65535"
	case types.Uint32:
		return "0", "4294967295"
	case types.Uint, types.Uint64, types.Uintptr:
		return "0", "18446744073709551615"
	}
	return "-9223372036854775808", "9223372036854775807"
}

// ---------------------------------------------------------------------------
// operands

func (x *Exec) val(fr *Frame, st *State, v ssa.Value) Term {
	switch c := v.(type) {
	case *ssa.Const:
		if _, ok := types.Unalias(c.Type()).Underlying().(*types.Tuple); ok {
			panic(engErr("tuple constant"))
		}
		return x.vc.constTerm(c.Type(), c.Value)
	case *ssa.Function:
		return x.funcValue(fr, c, v)
	case *ssa.Global:
		// address of a global used as a value
		return x.materialize(fr, st, &LVal{global: c, rootT: derefType(c.Type()), typ: derefType(c.Type())}, v)
	case *ssa.FreeVar:
		for i, fv := range fr.fn.FreeVars {
			if fv == c {
				if fr.freeVars != nil && fr.freeVars[i] != nil {
					return x.materialize(fr, st, fr.freeVars[i], v)
				}
				return fr.freeVals[i]
			}
		}
		panic(engErr("free variable %s unresolved", c.Name()))
	}
	regs := fr.regs
	if fr.pass1 {
		// pass 1 of a two-pass ghost evaluation writes into regs as usual
	}
	if t, ok := regs[v]; ok {
		return t
	}
	if lv, ok := fr.lvals[v]; ok {
		return x.materialize(fr, st, lv, v)
	}
	if _, ok := fr.tuples[v]; ok {
		panic(engErr("tuple used as value: %s", v.Name()))
	}
	panic(engErr("value %s (%T) of %s has no definition on this path", v.Name(), v, fr.fn.Name()))
}

// funcValue registers a function constant as a closure value.
func (x *Exec) funcValue(fr *Frame, fn *ssa.Function, v ssa.Value) Term {
	name := "fn_" + mangle(shortFn(fn))
	if !x.vc.declared["c:"+name] {
		x.vc.declared["c:"+name] = true
		x.vc.decls = append(x.vc.decls, fmt.Sprintf("(declare-const %s Int)", name))
		if x.vc.noName == 0 {
			x.vc.assert(lt(intLit(0), Term{name, SInt}))
		}
	}
	t := Term{name, SInt}
	x.closByTerm()[t.S] = &closure{fn: fn}
	return t
}

var closTables = map[*Exec]map[string]*closure{}

func (x *Exec) closByTerm() map[string]*closure {
	m := closTables[x]
	if m == nil {
		m = map[string]*closure{}
		closTables[x] = m
	}
	return m
}

// materialize turns an address (a local cell, a global, or an interior location of a heap
// object) into a pointer VALUE. The value is a virtual reference: a negative constant that
// the engine maps back to the l-value, so every later dereference (in inlined callees, in
// contract clauses, in modifies clauses) reads and writes the original location. No copy is
// made and no heap is written.
func (x *Exec) materialize(fr *Frame, st *State, lv *LVal, v ssa.Value) Term {
	if lv.cell == nil && lv.global == nil && len(lv.path) == 0 {
		return lv.ptr
	}
	key := lvalKey(lv)
	if x.virtByKey == nil {
		x.virtByKey = map[string]Term{}
		x.virt = map[string]*LVal{}
	}
	if t, ok := x.virtByKey[key]; ok {
		return t
	}
	for _, pe := range lv.path {
		if pe.isIdx && strings.Contains(pe.idx.S, "bv!") {
			panic(engErr("address of an element selected by a quantified index used as a value"))
		}
	}
	x.vc.nfresh++
	name := fmt.Sprintf("vp!%d", x.vc.nfresh)
	x.vc.decls = append(x.vc.decls, fmt.Sprintf("(declare-const %s Int)", name), fmt.Sprintf("(assert (< %s 0))", name))
	t := Term{name, SInt}
	x.virtByKey[key] = t
	cp := *lv
	x.virt[name] = &cp
	return t
}

func lvalKey(lv *LVal) string {
	var b strings.Builder
	switch {
	case lv.cell != nil:
		fmt.Fprintf(&b, "cell:%d:%p", lv.cell.fr, lv.cell.a)
	case lv.global != nil:
		fmt.Fprintf(&b, "glob:%s", lv.global.Name())
	default:
		fmt.Fprintf(&b, "heap:%v:%s:%s", lv.arr, typeKey(lv.rootT), lv.ptr.S)
	}
	for _, pe := range lv.path {
		if pe.isIdx {
			fmt.Fprintf(&b, "[%s]", pe.idx.S)
		} else {
			fmt.Fprintf(&b, ".%d", pe.field)
		}
	}
	return b.String()
}

func (x *Exec) note(format string, a ...any) {
	s := fmt.Sprintf(format, a...)
	for _, n := range x.vc.notes {
		if n == s {
			return
		}
	}
	x.vc.notes = append(x.vc.notes, s)
}

// alloc allocates a fresh heap object of type t holding init.
func (x *Exec) alloc(st *State, t types.Type, init Term) Term {
	var ref Term
	if x.vc.noName > 0 {
		ref = add(st.top, intLit(1))
	} else {
		ref = x.vc.fresh("ref", SInt)
		x.vc.asserts = append(x.vc.asserts, "(= "+ref.S+" "+add(st.top, intLit(1)).S+")")
	}
	st.top = ref
	st.written["top"] = true
	if a, ok := isArrayType(t); ok {
		h := x.vc.arrHeap(a.Elem())
		x.setHeap(st, h, store(x.heap(st, h), ref, init))
	} else {
		h := x.vc.objHeap(t)
		x.setHeap(st, h, store(x.heap(st, h), ref, init))
		// a new strings.Builder / bytes.Buffer is empty (ghost content, see libmodel.go)
		if k := typeKey(t); k == "strings.Builder" || k == "bytes.Buffer" {
			bh := heapID{"BUF_content", arraySort(SInt, SString)}
			x.setHeap(st, bh, store(x.heap(st, bh), ref, strLit("")))
		}
	}
	return ref
}

// addrOf resolves an address-valued operand to an l-value.
func (x *Exec) addrOf(fr *Frame, st *State, v ssa.Value) *LVal {
	if lv, ok := fr.lvals[v]; ok {
		return lv
	}
	switch c := v.(type) {
	case *ssa.Global:
		et := derefType(c.Type())
		return &LVal{global: c, rootT: et, typ: et}
	case *ssa.FreeVar:
		for i, fv := range fr.fn.FreeVars {
			if fv == c && fr.freeVars != nil && fr.freeVars[i] != nil {
				return fr.freeVars[i]
			}
		}
	}
	p := x.val(fr, st, v)
	return x.ptrLVal(p, v.Type())
}

// ---------------------------------------------------------------------------
// control flow

type edgeKey struct{ from, to *ssa.BasicBlock }

type cfgInfo struct {
	rpo     []*ssa.BasicBlock
	back    map[edgeKey]bool
	headers map[*ssa.BasicBlock]bool
	order   map[*ssa.BasicBlock]int
}

var cfgCache = map[*ssa.Function]*cfgInfo{}

func cfgOf(fn *ssa.Function) *cfgInfo {
	if c, ok := cfgCache[fn]; ok {
		return c
	}
	c := &cfgInfo{back: map[edgeKey]bool{}, headers: map[*ssa.BasicBlock]bool{}, order: map[*ssa.BasicBlock]int{}}
	state := map[*ssa.BasicBlock]int{}
	var post []*ssa.BasicBlock
	var dfs func(b *ssa.BasicBlock)
	dfs = func(b *ssa.BasicBlock) {
		state[b] = 1
		for _, s := range b.Succs {
			switch state[s] {
			case 0:
				dfs(s)
			case 1:
				c.back[edgeKey{b, s}] = true
				c.headers[s] = true
			}
		}
		state[b] = 2
		post = append(post, b)
	}
	if len(fn.Blocks) > 0 {
		dfs(fn.Blocks[0])
	}
	for i := len(post) - 1; i >= 0; i-- {
		c.order[post[i]] = len(c.rpo)
		c.rpo = append(c.rpo, post[i])
	}
	cfgCache[fn] = c
	return c
}

// loopBlocks returns the natural loop of header h (blocks that reach a back
// edge into h without leaving through h), in RPO order.
func (c *cfgInfo) loopBlocks(h *ssa.BasicBlock) []*ssa.BasicBlock {
	in := map[*ssa.BasicBlock]bool{h: true}
	var work []*ssa.BasicBlock
	for e := range c.back {
		if e.to == h && !in[e.from] {
			in[e.from] = true
			work = append(work, e.from)
		}
	}
	for len(work) > 0 {
		b := work[len(work)-1]
		work = work[:len(work)-1]
		for _, p := range b.Preds {
			if !in[p] {
				if _, reachable := c.order[p]; !reachable {
					continue
				}
				in[p] = true
				work = append(work, p)
			}
		}
	}
	var res []*ssa.BasicBlock
	for _, b := range c.rpo {
		if in[b] {
			res = append(res, b)
		}
	}
	return res
}

func (x *Exec) mergeStates(sts []*State) *State {
	if len(sts) == 1 {
		return sts[0].clone()
	}
	res := sts[0].clone()
	rs := make([]Term, len(sts))
	for i, s := range sts {
		rs[i] = s.reach
	}
	res.reach = x.vc.name("r", or(rs...))
	pick := func(get func(s *State) (Term, bool)) (Term, bool) {
		var vals []Term
		var conds []Term
		for _, s := range sts {
			if v, ok := get(s); ok {
				vals = append(vals, v)
				conds = append(conds, s.reach)
			}
		}
		if len(vals) == 0 {
			return Term{}, false
		}
		same := true
		for _, v := range vals[1:] {
			if v.S != vals[0].S {
				same = false
			}
		}
		if same {
			return vals[0], true
		}
		r := vals[len(vals)-1]
		for i := len(vals) - 2; i >= 0; i-- {
			r = ite(conds[i], vals[i], r)
		}
		return x.vc.name("m", r), true
	}
	ckeys := map[cellKey]bool{}
	gkeys := map[*ssa.Global]bool{}
	hkeys := map[string]bool{}
	ikeys := map[cellKey2]bool{}
	for _, s := range sts {
		for k := range s.cells {
			ckeys[k] = true
		}
		for k := range s.globals {
			gkeys[k] = true
		}
		for k := range s.heaps {
			hkeys[k] = true
		}
		for k := range s.iters {
			ikeys[k] = true
		}
		for k := range s.written {
			res.written[k] = true
		}
	}
	for _, k := range sortedCellKeys(ckeys) {
		k := k
		if v, ok := pick(func(s *State) (Term, bool) { v, ok := s.cells[k]; return v, ok }); ok {
			res.cells[k] = v
		}
	}
	for _, k := range sortedGlobals(gkeys) {
		k := k
		v, _ := pick(func(s *State) (Term, bool) {
			if v, ok := s.globals[k]; ok {
				return v, true
			}
			if v, ok := x.initGlob[k]; ok {
				return v, true
			}
			return Term{}, false
		})
		res.globals[k] = v
	}
	for _, k := range sortedKeys(hkeys) {
		k := k
		// a heap first mentioned by a havoc has no entry version yet: declare it
		if _, ok := x.initHeap[k]; !ok {
			for _, s := range sts {
				if v, ok := s.heaps[k]; ok {
					x.heap(&State{heaps: map[string]Term{}}, heapID{k, v.Sort})
					break
				}
			}
		}
		v, _ := pick(func(s *State) (Term, bool) {
			if v, ok := s.heaps[k]; ok {
				return v, true
			}
			return x.initHeap[k], true
		})
		res.heaps[k] = v
	}
	for _, k := range sortedIterKeys(ikeys) {
		k := k
		if v, ok := pick(func(s *State) (Term, bool) { v, ok := s.iters[k]; return v, ok }); ok {
			res.iters[k] = v
		}
	}
	// call history: per callee name, merge component-wise
	names := map[string]bool{}
	for _, s := range sts {
		for k := range s.calls {
			names[k] = true
		}
	}
	for _, k := range sortedKeys(names) {
		var tmpl *callRec
		for _, s := range sts {
			if r := s.calls[k]; r != nil {
				tmpl = r
			}
		}
		nr := &callRec{args: make([]Term, len(tmpl.args)), results: make([]Term, len(tmpl.results))}
		get := func(s *State) *callRec {
			if r := s.calls[k]; r != nil {
				return r
			}
			return &callRec{called: tFalse, args: tmpl.args, results: tmpl.results}
		}
		nr.called, _ = pick(func(s *State) (Term, bool) { return get(s).called, true })
		nr.seq, _ = pick(func(s *State) (Term, bool) {
			if q := get(s).seq; q.S != "" {
				return q, true
			}
			return intLit(0), true
		})
		for i := range tmpl.args {
			i := i
			nr.args[i], _ = pick(func(s *State) (Term, bool) { return get(s).args[i], true })
		}
		for i := range tmpl.results {
			i := i
			nr.results[i], _ = pick(func(s *State) (Term, bool) { return get(s).results[i], true })
		}
		if res.calls == nil {
			res.calls = map[string]*callRec{}
		}
		res.calls[k] = nr
	}
	for _, s := range sts {
		if s.dirtyOld {
			res.dirtyOld = true
		}
		for k := range s.dirty {
			res.markDirty(k)
		}
	}
	res.top, _ = pick(func(s *State) (Term, bool) { return s.top, true })
	res.effects, _ = pick(func(s *State) (Term, bool) { return s.effects, s.effects.S != "" })
	return res
}

// walk executes the given blocks (RPO order). preset gives the entry state of
// the first block. Returns the states on edges leaving the set / back edges.
func (x *Exec) walk(fr *Frame, blocks []*ssa.BasicBlock, start *ssa.BasicBlock, startState *State, dryHeader *ssa.BasicBlock) map[edgeKey]*State {
	cfg := cfgOf(fr.fn)
	inSet := map[*ssa.BasicBlock]bool{}
	for _, b := range blocks {
		inSet[b] = true
	}
	out := map[edgeKey]*State{}
	for _, b := range blocks {
		var st *State
		if b == start {
			st = startState
		} else {
			var ins []*State
			for _, p := range b.Preds {
				if cfg.back[edgeKey{p, b}] {
					continue
				}
				if s, ok := out[edgeKey{p, b}]; ok {
					ins = append(ins, s)
				}
			}
			if len(ins) == 0 {
				continue // unreachable in this walk
			}
			st = x.mergeStates(ins)
		}
		if st.reach.S == "false" && !(fr.spec && x.inPass1(fr)) {
			// (the first pass of an old()-using clause visits every block: it only records old values)
			continue
		}
		if cfg.headers[b] && b != dryHeader {
			st = x.enterLoop(fr, b, st)
		}
		x.execBlock(fr, b, st, out)
	}
	return out
}

// execBlock runs the instructions of b from state st and records out-edge states.
func (x *Exec) execBlock(fr *Frame, b *ssa.BasicBlock, st *State, out map[edgeKey]*State) {
	cfg := cfgOf(fr.fn)
	// phis first: they need predecessor edge conditions
	for _, ins := range b.Instrs {
		phi, ok := ins.(*ssa.Phi)
		if !ok {
			break
		}
		var vals, conds []Term
		for i, p := range b.Preds {
			es, ok := out[edgeKey{p, b}]
			if !ok {
				continue
			}
			if cfg.back[edgeKey{p, b}] {
				continue
			}
			vals = append(vals, x.val(fr, es, phi.Edges[i]))
			conds = append(conds, es.reach)
		}
		if len(vals) == 0 {
			panic(engErr("phi without evaluated predecessor in %s", fr.fn.Name()))
		}
		r := vals[len(vals)-1]
		for i := len(vals) - 2; i >= 0; i-- {
			r = ite(conds[i], vals[i], r)
		}
		fr.regs[phi] = x.vc.name("phi", r)
	}
	for _, ins := range b.Instrs {
		if _, ok := ins.(*ssa.Phi); ok {
			continue
		}
		if done := x.execInstr(fr, b, st, ins, out); done {
			return
		}
	}
}

func (x *Exec) isBackEdgeCheck(fr *Frame, from, to *ssa.BasicBlock, st *State) {
	cfg := cfgOf(fr.fn)
	if cfg.back[edgeKey{from, to}] {
		x.checkInvariants(fr, to, st, "back")
	}
}

// runFunction executes fn's body in frame fr from entry state st.
func (x *Exec) runFunction(fr *Frame, st *State) (*State, []Term) {
	fn := fr.fn
	x.eng.ensureBuilt(fn)
	if len(fn.Blocks) == 0 {
		panic(engErr("function %s has no body", fn))
	}
	fr.entry = st.clone()
	cfg := cfgOf(fn)
	// recover blocks are not supported
	if fn.Recover != nil {
		x.note("function %s has a recover block (ignored: panics are treated as path ends)", shortFn(fn))
	}
	x.walk(fr, cfg.rpo, fn.Blocks[0], st, nil)
	if len(fr.returns) == 0 {
		// never returns (all paths panic)
		dead := st.clone()
		dead.reach = tFalse
		n := fn.Signature.Results().Len()
		vals := make([]Term, n)
		for i := 0; i < n; i++ {
			vals[i] = x.vc.zero(fn.Signature.Results().At(i).Type())
		}
		return dead, vals
	}
	var sts []*State
	for _, r := range fr.returns {
		sts = append(sts, r.st)
	}
	exit := x.mergeStates(sts)
	n := fn.Signature.Results().Len()
	vals := make([]Term, n)
	for i := 0; i < n; i++ {
		r := fr.returns[len(fr.returns)-1].vals[i]
		for j := len(fr.returns) - 2; j >= 0; j-- {
			r = ite(fr.returns[j].st.reach, fr.returns[j].vals[i], r)
		}
		vals[i] = x.vc.name("ret", r)
	}
	return exit, vals
}

// ---------------------------------------------------------------------------
// loops

func loopOrdinal(fn *ssa.Function, h *ssa.BasicBlock) int {
	cfg := cfgOf(fn)
	var hs []*ssa.BasicBlock
	for b := range cfg.headers {
		hs = append(hs, b)
	}
	sort.Slice(hs, func(i, j int) bool { return hs[i].Index < hs[j].Index })
	for i, b := range hs {
		if b == h {
			return i + 1
		}
	}
	return 0
}

func (x *Exec) loopSpec(fr *Frame, h *ssa.BasicBlock) *LoopSpec {
	c := fr.contract
	if c == nil {
		c = x.eng.Contracts[fr.fn]
	}
	if c == nil {
		return nil
	}
	return c.Loops[loopOrdinal(fr.fn, h)]
}

func (x *Exec) invArgs(fr *Frame, st *State, ls *LoopSpec) []Term {
	var args []Term
	for _, v := range ls.Locals {
		args = append(args, x.localValue(fr, st, v))
	}
	return args
}

// localValue finds the current value of a source-level local variable.
func (x *Exec) localValue(fr *Frame, st *State, v *types.Var) Term {
	for _, a := range fr.fn.Locals {
		if a.Pos() == v.Pos() && a.Comment == v.Name() {
			if !a.Heap {
				k := cellKey{fr.id, a}
				if t, ok := st.cells[k]; ok {
					return t
				}
				// not yet spilled in this state (function entry): a parameter's own value
				for _, p := range fr.fn.Params {
					if p.Object() != nil && p.Object().Pos() == v.Pos() {
						return fr.regs[p]
					}
				}
				return x.vc.zero(v.Type())
			}
		}
	}
	// heap-allocated local (escaping): find the Alloc instruction
	for _, b := range fr.fn.Blocks {
		for _, ins := range b.Instrs {
			if a, ok := ins.(*ssa.Alloc); ok && a.Pos() == v.Pos() && a.Comment == v.Name() {
				if ref, ok := fr.regs[a]; ok {
					return x.load(st, x.ptrLVal(ref, a.Type()))
				}
				if lv, ok := fr.lvals[a]; ok {
					return x.load(st, lv)
				}
				return x.vc.zero(v.Type())
			}
		}
	}
	// parameters: spilled cells have the parameter's position
	panic(engErr("loop invariant mentions %s, which has no cell in %s", v.Name(), fr.fn.Name()))
}

// autoInvariant: -1 <= idx < len for range loops over slices (checked like any invariant).
func (x *Exec) autoInvariant(fr *Frame, h *ssa.BasicBlock, st *State) (Term, bool) {
	cell, ln := rangeIndexOf(h)
	if cell == nil || ln == nil {
		return Term{}, false
	}
	cur, ok := st.cells[cellKey{fr.id, cell}]
	if !ok {
		return Term{}, false
	}
	lt0, ok := fr.regs[ln]
	if !ok {
		return Term{}, false
	}
	return and(le(intLit(-1), cur), or(lt(cur, lt0), eq(cur, intLit(-1)))), true
}

func (x *Exec) checkInvariants(fr *Frame, h *ssa.BasicBlock, st *State, when string) {
	if fr.spec {
		return
	}
	if t, ok := x.autoInvariant(fr, h, st); ok {
		x.oblige(fr, "invariant@"+when, fmt.Sprintf("loop %d auto: range index within bounds", loopOrdinal(fr.fn, h)), st, t, h.Instrs[0].Pos())
	}
	ls := x.loopSpec(fr, h)
	if ls == nil {
		return
	}
	n := loopOrdinal(fr.fn, h)
	for i, cl := range ls.Invariants {
		if skipClause(cl, x.eng) {
			continue // thorough-tier invariant: neither checked nor assumed in the quick tier
		}
		gf := x.eng.ghostFunc(fr.fn.Pkg.Pkg.Path(), cl.Ghost)
		if gf == nil {
			panic(engErr("ghost function %s missing", cl.Ghost))
		}
		t := x.evalGhost(fr, gf, x.invArgs(fr, st, ls), x.invArgs(fr, fr.entry, ls), st, fr.entry)
		x.oblige(fr, "invariant@"+when, fmt.Sprintf("loop %d inv %d: %s", n, i+1, cl.Orig), st, t, h.Instrs[0].Pos())
	}
	if when == "back" && x.dry == 0 {
		head := fr.loopHead[h]
		if head == nil {
			head = fr.entry
		}
		for i, cl := range ls.Steps {
			if skipClause(cl, x.eng) {
				continue
			}
			gf := x.eng.ghostFunc(fr.fn.Pkg.Pkg.Path(), cl.Ghost)
			if gf == nil {
				panic(engErr("ghost function %s missing", cl.Ghost))
			}
			t := x.evalGhost(fr, gf, x.invArgs(fr, st, ls), x.invArgs(fr, head, ls), st, head)
			x.oblige(fr, "step", fmt.Sprintf("loop %d step %d: %s", n, i+1, cl.Orig), st, t, h.Instrs[0].Pos())
		}
	}
}

func (x *Exec) enterLoop(fr *Frame, h *ssa.BasicBlock, st *State) *State {
	cfg := cfgOf(fr.fn)
	blocks := cfg.loopBlocks(h)
	// 1. invariant on entry
	x.checkInvariants(fr, h, st, "entry")
	// 2. dry run to find what the loop writes
	nA, nO := len(x.vc.asserts), len(x.obls)
	nR := len(fr.returns)
	x.dry++
	dst := st.clone()
	dst.written = map[string]bool{}
	savedRegs := fr.regs
	fr.regs = cloneRegs(fr.regs)
	savedOrd := x.ordinals
	x.ordinals = cloneOrd(x.ordinals)
	outs := x.walk(fr, blocks, h, dst, h)
	x.dry--
	written := map[string]bool{}
	for e, s := range outs {
		if e.to == h && cfg.back[e] {
			for k := range s.written {
				written[k] = true
			}
		}
	}
	// also anything written on paths that leave the loop still matters only after exit; fine.
	x.vc.asserts = x.vc.asserts[:nA]
	x.obls = x.obls[:nO]
	fr.returns = fr.returns[:nR]
	fr.regs = savedRegs
	x.ordinals = savedOrd
	// 3. havoc
	hs := st.clone()
	for k := range written {
		hs.written[k] = true
	}
	topEntry := st.top
	for _, k := range sortedKeys(written) {
		switch {
		case k == "top":
			nt := x.vc.fresh("top", SInt)
			x.vc.assert(le(st.top, nt))
			hs.top = nt
		case strings.HasPrefix(k, "c:"):
			for _, ck := range sortedCellKeysOf(st.cells) {
				old := st.cells[ck]
				if fmt.Sprintf("c:%d:%p", ck.fr, ck.a) == k {
					nv := x.vc.fresh("lc_"+mangle(ck.a.Comment), old.Sort)
					hs.cells[ck] = nv
					x.wf(hs, nv, derefType(ck.a.Type()))
				}
			}
		case strings.HasPrefix(k, "g:"):
			for g := range st.globals {
				if "g:"+g.Name() == k {
					hs.globals[g] = x.vc.fresh("lg", st.globals[g].Sort)
				}
			}
		case strings.HasPrefix(k, "h:"):
			name := k[2:]
			old, ok := st.heaps[name]
			if !ok {
				old = x.initHeap[name]
			}
			if old.S == "" {
				// first touched inside the loop: declare its entry version now
				hs0 := x.vc.heapSorts[name]
				if name == "BUF_content" {
					hs0 = arraySort(SInt, SString)
				}
				if hs0 == "" {
					panic(engErr("internal: heap %s written in a loop has no known sort", name))
				}
				old = x.heap(st, heapID{name, hs0})
			}
			nh := x.vc.fresh(name, old.Sort)
			hs.heaps[name] = nh
			// objects existing at loop entry and written only when fresh keep their contents:
			// (this frame axiom is justified only for heaps whose in-loop writes target
			// in-loop allocations; see freshOnly)
			x.keepStable(name, old, nh, topEntry)
			if !x.freshOnlyWrites(fr, blocks, name) {
				hs.markDirty(name)
			} else {
				x.vc.assert(Term{fmt.Sprintf("(forall ((r Int)) (! (=> (<= r %s) (= (select %s r) (select %s r))) :pattern ((select %s r))))", topEntry.S, nh.S, old.S, nh.S), SBool})
			}
		case strings.HasPrefix(k, "i:"):
			for _, ik := range sortedIterKeysOf(st.iters) {
				old := st.iters[ik]
				if fmt.Sprintf("i:%d:%p", ik.fr, ik.r) == k {
					nv := x.vc.fresh("visited", old.Sort)
					hs.iters[ik] = nv
					// structural fact of the iterator model: only keys of the map are ever visited
					// (the ranged map itself is not modified inside the loop: checked below)
					if mt, ok := underlying(ik.r.X.Type()).(*types.Map); ok && ik.fr == fr.id {
						if m, ok := fr.regs[ik.r]; ok {
							ks := x.vc.sortOf(mt.Key())
							dom := x.mapDom(st, mt, m)
							x.vc.assert(Term{fmt.Sprintf("(forall ((k %s)) (! (=> (select %s k) (and (not (= %s 0)) (select %s k))) :pattern ((select %s k))))", ks, nv.S, m.S, dom.S, nv.S), SBool})
							d, _, _ := x.vc.mapHeaps(mt)
							if written["h:"+d.name] {
								x.note("map of the same type as a ranged map is written inside its loop in %s: the visited-subset-of-domain fact assumes the ranged map itself is not modified", shortFn(fr.fn))
							}
						}
					}
				}
			}
		case k == "effects":
			hs.effects = x.vc.fresh("eff", SInt)
		}
	}
	// iterators created before the loop but advanced inside are covered by "i:" keys
	// 4. assume invariants
	if t, ok := x.autoInvariant(fr, h, hs); ok && !fr.spec {
		x.vc.assert(implies(hs.reach, t))
	}
	if ls := x.loopSpec(fr, h); ls != nil && !fr.spec {
		for _, cl := range ls.Invariants {
			if skipClause(cl, x.eng) {
				continue
			}
			gf := x.eng.ghostFunc(fr.fn.Pkg.Pkg.Path(), cl.Ghost)
			t := x.evalGhost(fr, gf, x.invArgs(fr, hs, ls), x.invArgs(fr, fr.entry, ls), hs, fr.entry)
			x.vc.assert(implies(hs.reach, t))
		}
	}
	if fr.loopHead == nil {
		fr.loopHead = map[*ssa.BasicBlock]*State{}
	}
	fr.loopHead[h] = hs.clone()
	return hs
}

func cloneRegs(m map[ssa.Value]Term) map[ssa.Value]Term {
	n := make(map[ssa.Value]Term, len(m))
	for k, v := range m {
		n[k] = v
	}
	return n
}
func cloneOrd(m map[string]int) map[string]int {
	n := make(map[string]int, len(m))
	for k, v := range m {
		n[k] = v
	}
	return n
}

// freshOnlyWrites reports whether every write to the named heap inside the
// loop blocks targets an object allocated inside the loop (syntactically: the
// address root is an Alloc / append / MakeSlice / MakeMap result in the loop).
func (x *Exec) freshOnlyWrites(fr *Frame, blocks []*ssa.BasicBlock, heapName string) bool {
	inLoop := map[*ssa.BasicBlock]bool{}
	for _, b := range blocks {
		inLoop[b] = true
	}
	var rootFresh func(v ssa.Value, depth int) bool
	rootFresh = func(v ssa.Value, depth int) bool {
		if depth > 6 {
			return false
		}
		switch a := v.(type) {
		case *ssa.Alloc:
			return a.Heap && inLoop[a.Block()]
		case *ssa.MakeSlice:
			return inLoop[a.Block()]
		case *ssa.MakeMap:
			return inLoop[a.Block()]
		case *ssa.FieldAddr:
			return rootFresh(a.X, depth+1)
		case *ssa.IndexAddr:
			return rootFresh(a.X, depth+1)
		case *ssa.Slice:
			return rootFresh(a.X, depth+1)
		}
		return false
	}
	for _, b := range blocks {
		for _, ins := range b.Instrs {
			switch s := ins.(type) {
			case *ssa.Store:
				if _, isCell := s.Addr.(*ssa.Alloc); isCell && !s.Addr.(*ssa.Alloc).Heap {
					continue
				}
				if !x.storeMayTouch(s.Addr, heapName) {
					continue
				}
				if !rootFresh(s.Addr, 0) {
					return false
				}
			case *ssa.MapUpdate:
				if strings.HasPrefix(heapName, "M") && !rootFresh(s.Map, 0) {
					return false
				}
			case ssa.CallInstruction:
				// appends allocate fresh arrays; contract calls with modifies and havoc calls may write anywhere
				cc := s.Common()
				if bi, ok := cc.Value.(*ssa.Builtin); ok {
					if bi.Name() == "append" || bi.Name() == "len" || bi.Name() == "cap" || bi.Name() == "print" || bi.Name() == "println" {
						continue
					}
					return false
				}
				if callee := cc.StaticCallee(); callee != nil {
					if c := x.eng.Contracts[callee]; c != nil && (c.Pure || (c.HasMod && len(c.Modifies) == 0)) {
						continue
					}
					if x.isPureExternal(callee) || isIntrinsic(callee) || libNoWrite(callee.String()) {
						continue
					}
				}
				return false
			}
		}
	}
	return true
}

func (x *Exec) storeMayTouch(addr ssa.Value, heapName string) bool {
	// a store through an element address of a slice value writes the backing-array heap of the
	// slice's element type and nothing else; anything else is treated conservatively
	v := addr
	for depth := 0; depth < 8; depth++ {
		switch a := v.(type) {
		case *ssa.FieldAddr:
			v = a.X
			continue
		case *ssa.IndexAddr:
			if sl, ok := underlying(a.X.Type()).(*types.Slice); ok {
				return x.vc.arrHeap(sl.Elem()).name == heapName
			}
			v = a.X
			continue
		}
		break
	}
	return true
}

func (x *Exec) lvHeapName(lv *LVal) string {
	if lv.rootT == nil {
		return ""
	}
	if lv.arr {
		return x.vc.arrHeap(lv.rootT).name
	}
	return x.vc.objHeap(lv.rootT).name
}

func cellLess(a, b cellKey) bool {
	if a.fr != b.fr {
		return a.fr < b.fr
	}
	if a.a.Pos() != b.a.Pos() {
		return a.a.Pos() < b.a.Pos()
	}
	return a.a.Name() < b.a.Name()
}

func sortedCellKeys(m map[cellKey]bool) []cellKey {
	ks := make([]cellKey, 0, len(m))
	for k := range m {
		ks = append(ks, k)
	}
	sort.Slice(ks, func(i, j int) bool { return cellLess(ks[i], ks[j]) })
	return ks
}

func sortedCellKeysOf(m map[cellKey]Term) []cellKey {
	ks := make([]cellKey, 0, len(m))
	for k := range m {
		ks = append(ks, k)
	}
	sort.Slice(ks, func(i, j int) bool { return cellLess(ks[i], ks[j]) })
	return ks
}

func sortedGlobals(m map[*ssa.Global]bool) []*ssa.Global {
	ks := make([]*ssa.Global, 0, len(m))
	for k := range m {
		ks = append(ks, k)
	}
	sort.Slice(ks, func(i, j int) bool { return ks[i].String() < ks[j].String() })
	return ks
}

func iterLess(a, b cellKey2) bool {
	if a.fr != b.fr {
		return a.fr < b.fr
	}
	return a.r.Pos() < b.r.Pos()
}

func sortedIterKeys(m map[cellKey2]bool) []cellKey2 {
	ks := make([]cellKey2, 0, len(m))
	for k := range m {
		ks = append(ks, k)
	}
	sort.Slice(ks, func(i, j int) bool { return iterLess(ks[i], ks[j]) })
	return ks
}

func sortedIterKeysOf(m map[cellKey2]Term) []cellKey2 {
	ks := make([]cellKey2, 0, len(m))
	for k := range m {
		ks = append(ks, k)
	}
	sort.Slice(ks, func(i, j int) bool { return iterLess(ks[i], ks[j]) })
	return ks
}
