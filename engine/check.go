package main

// The registered check: gocv check -prop Cxx -tier quick|thorough

import (
	"encoding/json"
	"regexp"
	"hash/fnv"
	"flag"
	"fmt"
	"os"
	"path/filepath"
	"sort"
	"strings"
	"time"

	"golang.org/x/tools/go/ssa"
)

var propPkgs = map[string][]string{
	"C01": {"generator"}, "C02": {"generator"}, "C05": {"generator"}, "C06": {"generator"}, "C07": {"generator", "cmd/swagger/commands/diff"},
	"C08": {"generator"}, "C10": {"generator"}, "C11": {"generator", "cmd/swagger/commands/generate"},
	"C12": {"cmd/swagger/commands/diff"}, "C13": {"cmd/swagger/commands/diff"}, "C14": {"cmd/swagger/commands/diff"},
	"C15": {"cmd/swagger/commands/diff", "cmd/swagger/commands"},
	"C16": {"codescan"}, "C17": {"codescan"},
}

type KnownFinding struct {
	Property   string `json:"property"`
	Obligation string `json:"obligation"`
	What       string `json:"what"`
	Input      string `json:"input,omitempty"`
	Status     string `json:"status"`
}

type FixedFinding struct {
	Property string `json:"property"`
	Commit   string `json:"commit"`
	What     string `json:"what"`
}

type FindingsFile struct {
	Findings []KnownFinding `json:"findings"`
	Fixed    []FixedFinding `json:"fixed"`
}

type LockFile map[string][]string // property -> obligation names expected to be discharged

func readJSON(path string, v any) error {
	b, err := os.ReadFile(path)
	if err != nil {
		return err
	}
	return json.Unmarshal(b, v)
}

func hasProp(ps []string, p string) bool {
	for _, q := range ps {
		if q == p {
			return true
		}
	}
	return false
}

// collectUnits generates the VCs of everything that bears on a property.
func collectUnits(e *Engine, prop string) []*UnitResult {
	var units []*UnitResult
	paths := make([]string, 0, len(e.Targets))
	for p := range e.Targets {
		paths = append(paths, p)
	}
	sort.Strings(paths)
	for _, p := range paths {
		tp := e.Targets[p]
		if r := e.verifyInit(tp, []string{prop}); r != nil {
			units = append(units, r)
		}
		for _, sf := range tp.Stable {
			if prop == "" || hasProp(sf.Props, prop) {
				units = append(units, e.verifyStable(tp, sf, []string{prop}))
			}
		}
		for _, k := range sortedKeys(tp.Contracts) {
			c := tp.Contracts[k]
			if prop != "" && !hasProp(c.Props, prop) {
				continue
			}
			if c.Inline {
				continue
			}
			units = append(units, e.verifyContract(c))
		}
		var lemmas []*ssa.Function
		for name, m := range tp.SSA.Members {
			if fn, ok := m.(*ssa.Function); ok && strings.HasPrefix(name, "vs_lemma_") {
				if prop == "" || strings.HasPrefix(name, "vs_lemma_"+prop+"_") {
					lemmas = append(lemmas, fn)
				}
			}
		}
		sort.Slice(lemmas, func(i, j int) bool { return lemmas[i].Name() < lemmas[j].Name() })
		for _, l := range lemmas {
			units = append(units, e.verifyLemma(l, []string{prop}))
		}
	}
	return units
}

func oblOK(o *Obligation) bool {
	if o.Cover {
		return o.Result.Status == "sat"
	}
	return o.Result.Status == "unsat"
}

func cmdCheck(args []string) {
	fs := flag.NewFlagSet("check", flag.ExitOnError)
	prop := fs.String("prop", "", "property id")
	tier := fs.String("tier", "quick", "quick|thorough")
	writeLock := fs.Bool("write-lock", false, "developer: record the discharged obligations in obligations.lock.json")
	verbose := fs.Bool("v", false, "verbose")
	fs.Parse(args)
	if t := os.Getenv("VERIF_TIER"); t != "" && *tier == "" {
		*tier = t
	}
	seed := 0
	fmt.Sscanf(os.Getenv("VERIF_SEED"), "%d", &seed)
	pkgs := propPkgs[*prop]
	if pkgs == nil {
		fmt.Printf("unknown property %s\n", *prop)
		os.Exit(2)
	}
	t0 := time.Now()
	timeout := 60
	if *tier == "thorough" {
		timeout = 240
	}
	outDir := filepath.Join("/verif/out", *prop)
	os.RemoveAll(outDir)
	os.MkdirAll(filepath.Join(outDir, "replay"), 0o755)
	violation := func(replayPath, suffix string) {
		fmt.Printf("VIOLATION property=%s replay=%s%s\n", *prop, replayPath, suffix)
	}
	e, err := Load(pkgs, "/verif/ghost", nil)
	if err != nil {
		// contract-unbound or build failure: the contracts no longer bind to the code
		rp := filepath.Join(outDir, "replay", "load-error.txt")
		os.WriteFile(rp, []byte("obligation: <contracts bind to the code>\n\n"+err.Error()+"\n"), 0o644)
		fmt.Println("LOAD ERROR:", err)
		writeEvidence(*prop, *tier, seed, nil, nil, nil, time.Since(t0), 1, "load error: "+err.Error(), nil)
		violation(rp, " no-failing-input-found")
		os.Exit(1)
	}
	e.Tier = *tier
	e.CurProp = *prop
	units := collectUnits(e, *prop)
	var all []*Obligation
	for _, u := range units {
		all = append(all, u.Obls...)
	}
	os.MkdirAll("/verif/.work", 0o755)
	work, _ := os.MkdirTemp("/verif/.work", *prop+"-")
	defer os.RemoveAll(work)
	var ff FindingsFile
	_ = readJSON("/verif/known_findings.json", &ff)
	known := map[string]KnownFinding{}
	for _, k := range ff.Findings {
		if k.Property == *prop && k.Status == "known" {
			known[lockName(k.Obligation)] = k
		}
	}
	lock := LockFile{}
	_ = readJSON("/verif/obligations.lock.json", &lock)
	locked := map[string]bool{}
	lockedClause := map[string]bool{} // contract clauses (obligation name without the occurrence ordinal)
	for _, n := range lock[*prop] {
		locked[lockName(n)] = true
		lockedClause[clauseOf(lockName(n))] = true
	}
	// a clause of a contract that was proved on the unchanged tree stays claimed wherever the
	// current code makes it an obligation: a new return statement or call site failing it is a
	// regression of that clause, not a new, undecided obligation
	// callee preconditions: a precondition clause that was proved at EVERY call site of a unit on
	// the unchanged tree stays claimed at any call site the current code has in that unit (also
	// through a new helper executed in place); one that was left undecided at some site is
	// matched site by site
	provedReq, undecidedReq := map[string]bool{}, map[string]bool{}
	for _, n := range lock[*prop] {
		if k := reqKeyOfName(lockName(n)); k != "" {
			provedReq[k] = true
		}
	}
	for _, n := range lock[*prop+"#undecided"] {
		if k := reqKeyOfName(lockName(n)); k != "" {
			undecidedReq[k] = true
		}
	}
	isLocked := func(o *Obligation) bool {
		if locked[lockName(o.Name)] {
			return true
		}
		switch o.Kind {
		case "ensures", "invariant@entry", "invariant@back", "step", "assert", "globalinv":
			return lockedClause[clauseOf(lockName(o.Name))]
		case "requires@call":
			k := reqKeyOfName(lockName(o.Name))
			return k != "" && provedReq[k] && !undecidedReq[k]
		}
		return false
	}
	for _, o := range all {
		if _, isKnown := known[lockName(o.Name)]; isKnown {
			o.NoRetry = true // expected to fail: no second, longer attempt
		} else if !*writeLock && !o.Cover && !isLocked(o) {
			o.NoRetry = true // never proved on the unchanged tree (reported as UNDECIDED): one short attempt
		}
	}
	dischargeAll(work, all, timeout)
	violations := 0
	var undecided, knownHit []string
	seen := map[string]bool{}
	discharged := 0
	expected := 0
	for _, u := range units {
		if u.Err != "" {
			// the unit left the supported fragment or a contract no longer binds
			name := u.Unit + "#bound"
			seen[lockName(name)] = true
			rp := filepath.Join(outDir, "replay", sanitize(name)+".txt")
			os.WriteFile(rp, []byte("obligation: "+name+"\n\nengine: "+u.Err+"\n"), 0o644)
			if _, isKnown := known[lockName(name)]; isKnown {
				knownHit = append(knownHit, name)
				continue
			}
			fmt.Printf("UNIT-ERROR %s: %s\n", u.Unit, u.Err)
			violations++
			violation(rp, " no-failing-input-found")
			continue
		}
		for _, o := range u.Obls {
			seen[lockName(o.Name)] = true
			if k, isKnown := known[lockName(o.Name)]; isKnown {
				if oblOK(o) {
					fmt.Printf("STALE-FINDING: property=%s %s now discharges (%s)\n", *prop, o.Name, k.What)
					discharged++
					expected++
				} else {
					knownHit = append(knownHit, o.Name)
					fmt.Printf("KNOWN-FINDING: property=%s %s — %s\n", *prop, o.Name, k.What)
				}
				continue
			}
			expected++
			if oblOK(o) {
				discharged++
				continue
			}
			if o.Cover {
				if o.Result.Status == "unsat" {
					fmt.Printf("VACUOUS %s: cover query is unsatisfiable (contradictory requires/hypotheses)\n", o.Name)
					rp := filepath.Join(outDir, "replay", sanitize(o.Name)+".txt")
					os.WriteFile(rp, []byte("obligation: "+o.Name+"\n\ncover query unsat: the contract is vacuous\n"), 0o644)
					violations++
					violation(rp, " no-failing-input-found")
				} else {
					undecided = append(undecided, o.Name+" (cover: "+o.Result.Status+")")
					expected--
				}
				continue
			}
			// a failing obligation: try to replay a counterexample on the real code
			inLock := isLocked(o)
			rp, reproduced := replayObligation(e, o, outDir, work)
			switch {
			case reproduced:
				violations++
				violation(rp, "")
				fmt.Printf("  failed obligation: %s [%s] at %s (counterexample reproduced on the real code)\n", o.Name, o.Result.Status, o.Pos)
			case inLock:
				violations++
				violation(rp, " no-failing-input-found")
				fmt.Printf("  failed obligation: %s [%s] at %s\n", o.Name, o.Result.Status, o.Pos)
			default:
				undecided = append(undecided, o.Name+" ("+o.Result.Status+")")
				fmt.Printf("UNDECIDED %s [%s] (not in the lock, no reproduced counterexample: not counted as proved, not an alarm)\n", o.Name, o.Result.Status)
				expected--
			}
		}
	}
	// lock-listed obligations that were not generated at all
	var missing []string
	for n := range locked {
		if !seen[n] {
			missing = append(missing, n)
		}
	}
	sort.Strings(missing)
	for _, n := range missing {
		// functional obligations must exist; safety ones may legitimately disappear with the code
		kind := n
		if i := strings.Index(n, "#"); i >= 0 {
			kind = n[i+1:]
		}
		if strings.HasPrefix(kind, "ensures") || strings.HasPrefix(kind, "assert") || strings.HasPrefix(kind, "requires@call") || strings.HasPrefix(kind, "invariant") || strings.HasPrefix(kind, "globalinv") || strings.HasPrefix(kind, "cover") {
			rp := filepath.Join(outDir, "replay", sanitize(n)+".txt")
			os.WriteFile(rp, []byte("obligation: "+n+"\n\nthe obligation is recorded as proved in obligations.lock.json but was not generated from the current tree (contract, call site or function removed)\n"), 0o644)
			violations++
			violation(rp, " no-failing-input-found")
			fmt.Printf("  missing obligation: %s\n", n)
		}
	}
	if expected == 0 && violations == 0 {
		fmt.Println("TOOL ERROR: no obligations generated")
		writeEvidence(*prop, *tier, seed, units, undecided, knownHit, time.Since(t0), 1, "no obligations generated", all)
		os.RemoveAll(work)
		os.Exit(2)
	}
	if *writeLock {
		var names []string
		for _, o := range all {
			if oblOK(o) {
				if _, isKnown := known[lockName(o.Name)]; !isKnown {
					names = append(names, o.Name)
				}
			}
		}
		sort.Strings(names)
		lock[*prop] = names
		var undec []string
		for _, o := range all {
			if !o.Cover && !oblOK(o) {
				if _, isKnown := known[lockName(o.Name)]; !isKnown {
					undec = append(undec, o.Name)
				}
			}
		}
		sort.Strings(undec)
		lock[*prop+"#undecided"] = undec
		b, _ := json.MarshalIndent(lock, "", " ")
		os.WriteFile("/verif/obligations.lock.json", b, 0o644)
		fmt.Printf("lock written: %d obligations for %s\n", len(names), *prop)
	}
	writeEvidence(*prop, *tier, seed, units, undecided, knownHit, time.Since(t0), violations, "", all)
	if os.Getenv("GOCV_TIMINGS") != "" {
		var sb strings.Builder
		for _, o := range all {
			if o.Result != nil {
				fmt.Fprintf(&sb, "%d\t%s\t%s\t%s\n", o.Result.Ms, o.Result.Status, o.Result.Solver, o.Name)
			}
		}
		os.WriteFile(os.Getenv("GOCV_TIMINGS"), []byte(sb.String()), 0o644)
	}
	if *verbose {
		for _, u := range units {
			fmt.Printf("unit %s: %d obligations\n", u.Unit, len(u.Obls))
		}
	}
	fmt.Printf("%s %s: %d obligations, %d discharged, %d known findings, %d undecided, %d violations, %.1fs\n", *prop, *tier, expected, discharged, len(knownHit), len(undecided), violations, time.Since(t0).Seconds())
	if violations > 0 {
		os.RemoveAll(work)
		os.Exit(1)
	}
}

var rxOrdinal = regexp.MustCompile(`#\d+$`)

// rxClauseIndex: the position of a clause within its contract ("post 3: ", "loop 1 inv 2: ") is
// part of the displayed name but not of the lock identity: inserting a clause above another one
// must not make the latter look like a new (or a vanished) obligation.
var rxClauseIndex = regexp.MustCompile(`(\[[^\]]*?)\b(post|pre|inv|step) \d+: `)

func lockName(name string) string { return rxClauseIndex.ReplaceAllString(name, "$1$2: ") }

// clauseOf strips the occurrence ordinal from an obligation name.
func clauseOf(name string) string { return rxOrdinal.ReplaceAllString(name, "") }

// reqKeyOfName: for a requires@call obligation, "<unit>#requires@call[<callee clause>]" without
// the frame suffix (@fn of a callee executed in place) and the occurrence ordinal.
func reqKeyOfName(name string) string {
	i := strings.Index(name, "#requires@call[")
	if i < 0 {
		return ""
	}
	rest := name[i:]
	j := strings.LastIndex(rest, "]")
	if j < 0 {
		return ""
	}
	return name[:i] + rest[:j+1]
}

func sanitize(s string) string {
	var b strings.Builder
	for _, r := range s {
		switch {
		case r >= 'a' && r <= 'z', r >= 'A' && r <= 'Z', r >= '0' && r <= '9', r == '.', r == '-', r == '_':
			b.WriteRune(r)
		default:
			b.WriteByte('_')
		}
	}
	out := b.String()
	if len(out) > 140 {
		// keep names distinct after truncation
		h := fnv.New32a()
		h.Write([]byte(s))
		out = fmt.Sprintf("%s_%08x", out[:140], h.Sum32())
	}
	return out
}

func writeEvidence(prop, tier string, seed int, units []*UnitResult, undecided, known []string, wall time.Duration, violations int, errMsg string, all []*Obligation) {
	type sample struct {
		Name   string `json:"obligation"`
		Kind   string `json:"kind"`
		Status string `json:"status"`
		Solver string `json:"solver"`
		Ms     int64  `json:"ms"`
		Bytes  int    `json:"vc_bytes"`
		Pos    string `json:"pos"`
	}
	var samples []sample
	var funcs, lemmas []string
	solverMs := int64(0)
	bySolver := map[string]int{}
	disch, total, covers := 0, 0, 0
	inl, hav, pure, lib, notes := map[string]bool{}, map[string]bool{}, map[string]bool{}, map[string]bool{}, map[string]bool{}
	var trusted []string
	for _, u := range units {
		switch u.Kind {
		case "function":
			funcs = append(funcs, u.Unit)
		case "lemma":
			lemmas = append(lemmas, u.Unit)
		case "init":
			funcs = append(funcs, u.Unit+" (package initialiser; global invariants)")
		case "census":
			funcs = append(funcs, u.Unit+" (field-write census over the package's SSA)")
		}
		for _, s := range u.Inlined {
			inl[s] = true
		}
		for _, s := range u.Havocked {
			hav[s] = true
		}
		for _, s := range u.Pure {
			pure[s] = true
		}
		for _, s := range u.Lib {
			lib[s] = true
		}
		for _, s := range u.Notes {
			notes[s] = true
			if strings.HasPrefix(s, "TRUSTED") {
				trusted = append(trusted, u.Unit)
			}
		}
		for _, o := range u.Obls {
			if o.Result == nil {
				continue
			}
			total++
			if o.Cover {
				covers++
			}
			if oblOK(o) {
				disch++
			}
			solverMs += o.Result.Ms
			bySolver[o.Result.Solver]++
			if len(samples) < 40 || !oblOK(o) {
				samples = append(samples, sample{o.Name, o.Kind, o.Result.Status, o.Result.Solver, o.Result.Ms, o.Result.Bytes, o.Pos})
			}
		}
	}
	knownSet := map[string]bool{}
	for _, k := range known {
		knownSet[k] = true
	}
	// obligations counted for the proof claim: everything except known findings and undecided (unlocked) ones
	claimed := total - len(known) - len(undecided)
	if claimed < 0 {
		claimed = 0
	}
	dischargedClaimed := disch
	if dischargedClaimed > claimed {
		dischargedClaimed = claimed
	}
	assumptions := []string{
		"A1 integers are mathematical (no wrap-around); range facts on every input and load",
		"A2 float64 modelled as reals (no NaN/Inf)",
		"A3 append always reallocates; cells beyond len are unspecified",
		"A4 interior addresses passed as values are copied in (no aliasing through them)",
		"A5 termination of recursive functions is not proved",
		"A7 dependency behaviour as modelled (library models) or uninterpreted",
		"A8/A9 slices have offset 0; re-slicing with a non-zero low bound copies; input slices do not partially overlap",
		"A10 a struct or slice carried by value inside an interface argument of a pure function holds entry references only",
		"A11 a call through a function value changes only what its arguments reach (state captured by the closure is not tracked)",
	}
	for _, k := range sortedKeys(hav) {
		assumptions = append(assumptions, "havoc (no contract, results and reachable heaps unconstrained): "+k)
	}
	for _, k := range sortedKeys(pure) {
		assumptions = append(assumptions, "assumed pure/deterministic (uninterpreted function): "+k)
	}
	for _, k := range sortedKeys(lib) {
		assumptions = append(assumptions, "library model (trusted): "+k)
	}
	for _, k := range trusted {
		assumptions = append(assumptions, "TRUSTED contract (assumed at call sites, body not verified): "+k)
	}
	for _, k := range sortedKeys(notes) {
		assumptions = append(assumptions, "note: "+k)
	}
	ev := map[string]any{
		"property_id": prop,
		"tier":        tier,
		"seed":        seed,
		"level":       "proof",
		"wall_s":      wall.Seconds(),
		"violations":  violations,
		"assumptions": assumptions,
		"coverage": map[string]any{
			"obligations":              claimed,
			"discharged":               dischargedClaimed,
			"checker_cmd":              fmt.Sprintf("/verif/bin/check %s %s", prop, tier),
			"trusted_base":             []string{"go/ssa (x/tools v0.29.0) naive-form SSA of /repo's working tree", "gocv VC generator (/verif/engine)", "z3 5.1.0 / cvc5 1.0.3 / z3 4.8.12 (unsat trusted from any one)", "library models (/verif/engine/libmodel.go)", "specification predicates in /verif/ghost"},
			"samples":                  samples,
			"functions_under_contract": funcs,
			"lemmas":                   lemmas,
			"covers_sat":               covers,
			"obligations_generated":    total,
			"known_findings":           known,
			"undecided":                undecided,
			"inlined_callees":          sortedKeys(inl),
			"solver_ms_total":          solverMs,
			"discharged_by_solver":     bySolver,
			"bounded_obligations":      []string{},
			"error":                    errMsg,
		},
	}
	b, _ := json.MarshalIndent(ev, "", " ")
	dir := "/verif/evidence"
	if os.Getenv("GOCV_REPO") != "" {
		dir = "/verif/out/scratch-evidence" // developer runs against a scratch tree never touch the evidence
	}
	os.MkdirAll(dir, 0o755)
	os.WriteFile(filepath.Join(dir, prop+".json"), b, 0o644)
}
