package main

// SMT layer: sorts, terms, lazily declared datatypes/heaps, and the per-unit
// verification-condition context (declarations + ordered assertions).

import (
	"fmt"
	"go/constant"
	"go/types"
	"sort"
	"strconv"
	"strings"
)

type Sort string

const (
	SBool   Sort = "Bool"
	SInt    Sort = "Int"
	SReal   Sort = "Real"
	SString Sort = "String"
	SSlice  Sort = "Slice"
	SIface  Sort = "Iface"
)

// Term is an SMT-LIB term (as text) with its sort.
type Term struct {
	S    string
	Sort Sort
}

func (t Term) String() string { return t.S }

var (
	tTrue  = Term{"true", SBool}
	tFalse = Term{"false", SBool}
)

func intLit(n int64) Term {
	if n < 0 {
		return Term{fmt.Sprintf("(- %d)", -n), SInt}
	}
	return Term{strconv.FormatInt(n, 10), SInt}
}

func bigIntLit(s string) Term {
	if strings.HasPrefix(s, "-") {
		return Term{"(- " + s[1:] + ")", SInt}
	}
	return Term{s, SInt}
}

// strLit renders a Go string (bytes) as an SMT-LIB string literal; every byte
// outside printable ASCII (and the quote / backslash) is escaped as \u{xx}.
func strLit(s string) Term {
	var b strings.Builder
	b.WriteByte('"')
	for i := 0; i < len(s); i++ {
		c := s[i]
		switch {
		case c == '"':
			b.WriteString(`""`)
		case c == '\\':
			b.WriteString(`\u{5c}`)
		case c >= 0x20 && c < 0x7f:
			b.WriteByte(c)
		default:
			fmt.Fprintf(&b, `\u{%x}`, c)
		}
	}
	b.WriteByte('"')
	return Term{b.String(), SString}
}

func app(sort Sort, op string, args ...Term) Term {
	var b strings.Builder
	b.WriteByte('(')
	b.WriteString(op)
	for _, a := range args {
		b.WriteByte(' ')
		b.WriteString(a.S)
	}
	b.WriteByte(')')
	return Term{b.String(), sort}
}

func and(ts ...Term) Term {
	var xs []Term
	for _, t := range ts {
		if t.S == "true" {
			continue
		}
		if t.S == "false" {
			return tFalse
		}
		xs = append(xs, t)
	}
	switch len(xs) {
	case 0:
		return tTrue
	case 1:
		return xs[0]
	}
	return app(SBool, "and", xs...)
}

func or(ts ...Term) Term {
	var xs []Term
	for _, t := range ts {
		if t.S == "false" {
			continue
		}
		if t.S == "true" {
			return tTrue
		}
		xs = append(xs, t)
	}
	switch len(xs) {
	case 0:
		return tFalse
	case 1:
		return xs[0]
	}
	return app(SBool, "or", xs...)
}

func not(t Term) Term {
	switch t.S {
	case "true":
		return tFalse
	case "false":
		return tTrue
	}
	if strings.HasPrefix(t.S, "(not ") {
		return Term{t.S[5 : len(t.S)-1], SBool}
	}
	return app(SBool, "not", t)
}

func implies(a, b Term) Term {
	if a.S == "true" {
		return b
	}
	if a.S == "false" || b.S == "true" {
		return tTrue
	}
	return app(SBool, "=>", a, b)
}

func eq(a, b Term) Term {
	if a.S == b.S {
		return tTrue
	}
	if x, ok := litInt(a); ok {
		if y, ok := litInt(b); ok && x != y {
			return tFalse
		}
	}
	return app(SBool, "=", a, b)
}

func ite(c, a, b Term) Term {
	if c.S == "true" {
		return a
	}
	if c.S == "false" {
		return b
	}
	if a.S == b.S {
		return a
	}
	if a.Sort == SBool {
		if a.S == "true" && b.S == "false" {
			return c
		}
		if a.S == "false" && b.S == "true" {
			return not(c)
		}
	}
	return app(a.Sort, "ite", c, a, b)
}

// curDefs maps macro names to their definitions (set per VC; VC generation is sequential).
var curDefs map[string]string
var curVC *VC

// sel builds (select arr idx), simplifying select-over-store when the indices are
// syntactically equal, or syntactically distinct allocations / literals.
func sel(arr, idx Term, elem Sort) Term {
	a := arr.S
	for depth := 0; depth < 64; depth++ {
		if d, ok := curDefs[a]; ok {
			a = d
			continue
		}
		if !strings.HasPrefix(a, "(store ") {
			break
		}
		i0 := len("(store ")
		i1 := skipSexpr(a, i0)
		i2 := skipSexpr(a, i1)
		i3 := skipSexpr(a, i2)
		if i3 != len(a)-1 {
			break
		}
		base, ix, val := strings.TrimSpace(a[i0:i1]), strings.TrimSpace(a[i1:i2]), strings.TrimSpace(a[i2:i3])
		if ix == idx.S {
			if curVC != nil {
				return curVC.name("sv", Term{val, elem})
			}
			return Term{val, elem}
		}
		if distinctRefs(ix, idx.S) {
			a = base
			continue
		}
		break
	}
	if a != arr.S && !strings.HasPrefix(a, "(") {
		return app(elem, "select", Term{a, arr.Sort}, idx)
	}
	if a != arr.S && len(a) < len(arr.S) {
		return app(elem, "select", Term{a, arr.Sort}, idx)
	}
	return app(elem, "select", arr, idx)
}

// distinctRefs: two index terms that certainly denote different values.
func distinctRefs(a, b string) bool {
	if a == b {
		return false
	}
	isRef := func(s string) bool { return strings.HasPrefix(s, "ref!") || strings.HasPrefix(s, "mref!") }
	if isRef(a) && isRef(b) {
		return true
	}
	_, e1 := strconv.ParseInt(a, 10, 64)
	_, e2 := strconv.ParseInt(b, 10, 64)
	return e1 == nil && e2 == nil
}
func store(arr, idx, v Term) Term       { return app(arr.Sort, "store", arr, idx, v) }
func arraySort(k, v Sort) Sort          { return Sort("(Array " + string(k) + " " + string(v) + ")") }
func add(a, b Term) Term {
	if b.S == "0" {
		return a
	}
	if a.S == "0" {
		return b
	}
	return app(SInt, "+", a, b)
}
func sub(a, b Term) Term {
	if b.S == "0" {
		return a
	}
	return app(SInt, "-", a, b)
}
func litInt(t Term) (int64, bool) {
	if t.S == "" || t.S[0] < '0' || t.S[0] > '9' || len(t.S) > 17 {
		return 0, false
	}
	n, err := strconv.ParseInt(t.S, 10, 64)
	return n, err == nil
}
func le(a, b Term) Term {
	if x, ok := litInt(a); ok {
		if y, ok := litInt(b); ok {
			if x <= y {
				return tTrue
			}
			return tFalse
		}
	}
	return app(SBool, "<=", a, b)
}
func lt(a, b Term) Term {
	if x, ok := litInt(a); ok {
		if y, ok := litInt(b); ok {
			if x < y {
				return tTrue
			}
			return tFalse
		}
	}
	return app(SBool, "<", a, b)
}

// ---------------------------------------------------------------------------

// structInfo describes the SMT datatype of a Go struct type.
type structInfo struct {
	sort   Sort
	ctor   string
	fields []string // accessor names
	fsorts []Sort
	ftypes []types.Type
	st     *types.Struct
}

// VC is the verification-condition context of one unit (function or lemma).
type VC struct {
	eng       *Engine
	decls     []string // sort / function declarations, in dependency order
	asserts   []string // ordered facts and definitions
	declared  map[string]bool
	structs   map[string]*structInfo // by sort name
	structOf  map[string]*structInfo // by type key
	typeIDs   map[string]int         // concrete type key -> id
	typeByID  map[int]types.Type
	nfresh    int
	noName    int // >0: inside a binder, no top-level definitions may be emitted
	nameLimit int
	libUsed   map[string]bool
	assumed   map[string]bool
	notes     []string
	bounded   []Term // stack of bound variable names (informational)
	defs      map[string]string
	heapTypes map[string]types.Type
	heapSorts map[string]Sort
	asserted  map[string]int
	lets      map[string][]letDef // binder name -> let definitions made inside it
	binders   []string            // stack of open binders
	letStack  [][]letDef
	recordPass1 bool
}

type letDef struct{ name, expr string }

func (vc *VC) openBinder(name string) {
	if vc.lets == nil {
		vc.lets = map[string][]letDef{}
	}
	vc.binders = append(vc.binders, name)
	vc.letStack = append(vc.letStack, nil)
	vc.noName++
}

// closeBinder wraps body in the let-definitions made inside the binder and
// returns instantiation patterns: the array reads that mention the bound variable.
func (vc *VC) closeBinder(body Term) (Term, []string) {
	name := vc.binders[len(vc.binders)-1]
	vc.binders = vc.binders[:len(vc.binders)-1]
	vc.noName--
	ls := vc.letStack[len(vc.letStack)-1]
	vc.letStack = vc.letStack[:len(vc.letStack)-1]
	if vc.recordPass1 {
		// values of old(e) computed in this pass are reused in the second pass, inside the
		// binder of the same name: keep the definitions they may mention
		vc.lets[name] = append(vc.lets[name], ls...)
	} else if p1 := vc.lets[name]; len(p1) > 0 {
		ls = append(append([]letDef{}, p1...), ls...)
	}
	s := body.S
	for i := len(ls) - 1; i >= 0; i-- {
		s = "(let ((" + ls[i].name + " " + ls[i].expr + ")) " + s + ")"
	}
	// expand let names inside candidate patterns
	expand := func(t string) string {
		for round := 0; round < 40 && strings.Contains(t, "l!"); round++ {
			changed := false
			for i := len(ls) - 1; i >= 0; i-- {
				if strings.Contains(t, ls[i].name) {
					nt := replaceToken(t, ls[i].name, ls[i].expr)
					if nt != t {
						t, changed = nt, true
					}
				}
			}
			if !changed || len(t) > 4000 {
				break
			}
		}
		return t
	}
	seen := map[string]bool{}
	var pats []string
	texts := []string{body.S}
	for _, l := range ls {
		texts = append(texts, l.expr)
	}
	for _, txt := range texts {
		for i := 0; i+8 < len(txt); i++ {
			if !strings.HasPrefix(txt[i:], "(select ") {
				continue
			}
			j := skipSexpr(txt, i)
			cand := expand(txt[i:j])
			if len(cand) > 1500 || !strings.Contains(cand, name) || strings.Contains(cand, "l!") {
				continue
			}
			bad := false
			for _, op := range []string{"(ite ", "(forall ", "(exists ", "(and ", "(or ", "(not ", "(= ", "(< ", "(<= ", "(let ", "(=> ", "(> ", "(>= ", "(str."} {
				if strings.Contains(cand, op) {
					bad = true
				}
			}
			if bad || seen[cand] {
				continue
			}
			// keep only outermost reads (a pattern that contains another candidate subsumes it)
			seen[cand] = true
			pats = append(pats, cand)
		}
	}
	// drop candidates that are proper subterms of other candidates
	var keep []string
	for _, p := range pats {
		sub := false
		for _, q := range pats {
			if p != q && strings.Contains(q, p) {
				sub = true
			}
		}
		if !sub {
			keep = append(keep, p)
		}
	}
	if len(keep) > 6 {
		keep = keep[:6]
	}
	return Term{s, body.Sort}, keep
}

func replaceToken(s, name, repl string) string {
	var b strings.Builder
	for i := 0; i < len(s); {
		if strings.HasPrefix(s[i:], name) {
			end := i + len(name)
			if end == len(s) || !(s[end] >= '0' && s[end] <= '9') {
				b.WriteString(repl)
				i = end
				continue
			}
		}
		b.WriteByte(s[i])
		i++
	}
	return b.String()
}

func newVC(e *Engine) *VC {
	vc := &VC{eng: e, declared: map[string]bool{}, structs: map[string]*structInfo{}, structOf: map[string]*structInfo{},
		typeIDs: map[string]int{}, typeByID: map[int]types.Type{}, nameLimit: 120, libUsed: map[string]bool{}, assumed: map[string]bool{}}
	vc.defs = map[string]string{}
	curDefs = vc.defs
	curVC = vc
	vc.decls = append(vc.decls,
		"(declare-datatypes ((Slice 0)) (((mk-slice (s-arr Int) (s-off Int) (s-len Int) (s-cap Int)))))",
		"(declare-datatypes ((Iface 0)) (((mk-iface (i-type Int) (i-val Int)))))")
	return vc
}

func mangle(s string) string {
	var b strings.Builder
	for _, r := range s {
		switch {
		case r >= 'a' && r <= 'z', r >= 'A' && r <= 'Z', r >= '0' && r <= '9', r == '_':
			b.WriteRune(r)
		case r == '.':
			b.WriteString(".")
		case r == '*':
			b.WriteString("P.")
		case r == '[':
			b.WriteString("L.")
		case r == ']':
			b.WriteString(".J")
		case r == '/':
			b.WriteString("!")
		default:
			fmt.Fprintf(&b, "$%x", r)
		}
	}
	return b.String()
}

// typeKey is a stable identity string for a Go type (short package names are
// not enough: full paths are used).
func canonType(t types.Type) types.Type {
	t = types.Unalias(t)
	if it, ok := t.(*types.Interface); ok && it.NumMethods() == 0 && it.NumEmbeddeds() == 0 {
		return types.Universe.Lookup("any").Type()
	}
	return t
}

func typeKey(t types.Type) string { return types.TypeString(canonType(t), nil) }

func shortTypeKey(t types.Type) string {
	return types.TypeString(canonType(t), func(p *types.Package) string { return p.Name() })
}

func (vc *VC) fresh(prefix string, s Sort) Term {
	vc.nfresh++
	name := fmt.Sprintf("%s!%d", prefix, vc.nfresh)
	vc.decls = append(vc.decls, fmt.Sprintf("(declare-const %s %s)", name, s))
	return Term{name, s}
}

func (vc *VC) declareFun(name string, args []Sort, res Sort) {
	if vc.declared["fun:"+name] {
		return
	}
	vc.declared["fun:"+name] = true
	as := make([]string, len(args))
	for i, a := range args {
		as[i] = string(a)
	}
	vc.decls = append(vc.decls, fmt.Sprintf("(declare-fun %s (%s) %s)", name, strings.Join(as, " "), res))
}

func (vc *VC) assert(t Term) {
	if t.S == "true" {
		return
	}
	if vc.noName > 0 {
		panic(engErr("internal: assertion inside binder"))
	}
	// identical facts are asserted once (a fact stays valid: assertions are never retracted,
	// except by the loop dry run, which clears this memo when it truncates)
	if vc.asserted == nil {
		vc.asserted = map[string]int{}
	}
	if at, ok := vc.asserted[t.S]; ok && at < len(vc.asserts) && vc.asserts[at] == t.S {
		return
	}
	vc.asserted[t.S] = len(vc.asserts)
	vc.asserts = append(vc.asserts, t.S)
}

// name gives a large closed term a name, so that later terms stay small.
func (vc *VC) name(prefix string, t Term) Term {
	if len(t.S) <= vc.nameLimit {
		return t
	}
	if vc.noName > 0 {
		if len(vc.binders) == 0 {
			return t
		}
		vc.nfresh++
		n := fmt.Sprintf("l!%d", vc.nfresh)
		k := len(vc.letStack) - 1
		vc.letStack[k] = append(vc.letStack[k], letDef{n, t.S})
		return Term{n, t.Sort}
	}
	vc.nfresh++
	n := fmt.Sprintf("%s!%d", prefix, vc.nfresh)
	// a macro, not a constant with a defining equation: the solvers see through it, so
	// quantifier instantiation by matching still finds the terms
	vc.asserts = append(vc.asserts, "\x00(define-fun "+n+" () "+string(t.Sort)+" "+t.S+")")
	if strings.HasPrefix(t.S, "(store ") || strings.HasPrefix(t.S, "(mk-") {
		vc.defs[n] = t.S
	}
	return Term{n, t.Sort}
}

type engError struct{ msg string }

func (e *engError) Error() string { return e.msg }
func engErr(format string, a ...any) *engError {
	return &engError{fmt.Sprintf(format, a...)}
}

// sortOf maps a Go type to its SMT sort, declaring datatypes as needed.
func (vc *VC) sortOf(t types.Type) Sort {
	switch u := t.(type) {
	case *types.Named:
		if st, ok := u.Underlying().(*types.Struct); ok {
			return vc.structSort(u, st).sort
		}
		return vc.sortOf(u.Underlying())
	case *types.Alias:
		return vc.sortOf(types.Unalias(u))
	case *types.Basic:
		info := u.Info()
		switch {
		case info&types.IsBoolean != 0:
			return SBool
		case info&types.IsInteger != 0:
			return SInt
		case info&types.IsFloat != 0:
			return SReal
		case info&types.IsString != 0:
			return SString
		case u.Kind() == types.UnsafePointer, u.Kind() == types.UntypedNil:
			return SInt
		}
		panic(engErr("unsupported basic type %s", u))
	case *types.Pointer, *types.Map, *types.Chan, *types.Signature:
		return SInt
	case *types.Slice:
		return SSlice
	case *types.Interface:
		return SIface
	case *types.Struct:
		return vc.structSort(t, u).sort
	case *types.Array:
		return arraySort(SInt, vc.sortOf(u.Elem()))
	case *types.TypeParam:
		panic(engErr("type parameter %s not supported", u))
	case *types.Tuple:
		panic(engErr("tuple has no sort"))
	}
	panic(engErr("unsupported type %T %s", t, t))
}

func (vc *VC) structSort(t types.Type, st *types.Struct) *structInfo {
	key := typeKey(t)
	if si := vc.structOf[key]; si != nil {
		return si
	}
	name := "S_" + mangle(shortTypeKey(t))
	if len(name) > 60 {
		name = fmt.Sprintf("%s_%d", name[:50], len(vc.structOf))
	}
	if vc.structs[name] != nil { // two distinct types with equal short names
		name = fmt.Sprintf("%s_%d", name, len(vc.structOf))
	}
	si := &structInfo{sort: Sort(name), ctor: "mk-" + name, st: st}
	vc.structOf[key] = si
	vc.structs[name] = si
	for i := 0; i < st.NumFields(); i++ {
		f := st.Field(i)
		fname := mangle(f.Name())
		if f.Name() == "_" {
			fname = fmt.Sprintf("blank%d", i)
		}
		si.fields = append(si.fields, fmt.Sprintf("%s.%s", name, fname))
		si.ftypes = append(si.ftypes, f.Type())
		si.fsorts = append(si.fsorts, vc.sortOf(f.Type())) // declares nested datatypes first
	}
	var b strings.Builder
	fmt.Fprintf(&b, "(declare-datatypes ((%s 0)) (((%s", name, si.ctor)
	for i := range si.fields {
		fmt.Fprintf(&b, " (%s %s)", si.fields[i], si.fsorts[i])
	}
	b.WriteString("))))")
	vc.decls = append(vc.decls, b.String())
	return si
}

func (vc *VC) structInfoOf(t types.Type) *structInfo {
	t = types.Unalias(t)
	st, ok := t.Underlying().(*types.Struct)
	if !ok {
		panic(engErr("not a struct: %s", t))
	}
	return vc.structSort(t, st)
}

func (vc *VC) zero(t types.Type) Term {
	s := vc.sortOf(t)
	switch s {
	case SBool:
		return tFalse
	case SInt:
		return intLit(0)
	case SReal:
		return Term{"0.0", SReal}
	case SString:
		return strLit("")
	case SSlice:
		return Term{"(mk-slice 0 0 0 0)", SSlice}
	case SIface:
		return Term{"(mk-iface 0 0)", SIface}
	}
	switch u := types.Unalias(t).Underlying().(type) {
	case *types.Struct:
		si := vc.structInfoOf(t)
		if len(si.fields) == 0 {
			return Term{si.ctor, si.sort}
		}
		args := make([]Term, len(si.fields))
		for i := range si.fields {
			args[i] = vc.zero(si.ftypes[i])
		}
		return vc.name("zero", app(si.sort, si.ctor, args...))
	case *types.Array:
		// the element value is written out in full: cvc5 accepts only values inside constant arrays
		save := vc.nameLimit
		vc.nameLimit = 1 << 30
		el := vc.zero(u.Elem())
		vc.nameLimit = save
		return Term{fmt.Sprintf("((as const %s) %s)", s, el.S), s}
	}
	panic(engErr("zero: unsupported type %s", t))
}

func (vc *VC) field(si *structInfo, s Term, i int) Term {
	// simplify (f (mk ...)) is left to the solver
	return app(si.fsorts[i], si.fields[i], s)
}

func (vc *VC) withField(si *structInfo, s Term, i int, v Term) Term {
	args := make([]Term, len(si.fields))
	s = vc.name("st", s)
	for j := range si.fields {
		if j == i {
			args[j] = v
		} else {
			args[j] = vc.field(si, s, j)
		}
	}
	return vc.name("st", app(si.sort, si.ctor, args...))
}

// typeID gives each concrete type a small positive integer (per VC).
func (vc *VC) typeID(t types.Type) Term {
	k := typeKey(t)
	id, ok := vc.typeIDs[k]
	if !ok {
		id = len(vc.typeIDs) + 1
		vc.typeIDs[k] = id
		vc.typeByID[id] = t
		// isref(typeid): values of this dynamic type are references (payload = the reference)
		vc.declareFun("isref", []Sort{SInt}, SBool)
		isRef := false
		switch types.Unalias(t).Underlying().(type) {
		case *types.Pointer, *types.Map, *types.Chan, *types.Signature:
			isRef = true
		}
		if isRef {
			vc.decls = append(vc.decls, fmt.Sprintf("(assert (isref %d))", id))
		} else {
			vc.decls = append(vc.decls, fmt.Sprintf("(assert (not (isref %d)))", id))
		}
	}
	return intLit(int64(id))
}

// box / unbox of a value of (non-interface) type t into the Int payload of an interface.
func (vc *VC) box(t types.Type, v Term) Term {
	s := vc.sortOf(t)
	if s == SInt {
		return v
	}
	k := mangle(shortTypeKey(t))
	bn, un := "box_"+k, "unbox_"+k
	vc.declareFun(bn, []Sort{s}, SInt)
	vc.declareFun(un, []Sort{SInt}, s)
	b := app(SInt, bn, v)
	if vc.noName == 0 {
		vc.assert(eq(app(s, un, b), v))
	}
	return b
}

func (vc *VC) unbox(t types.Type, payload Term) Term {
	s := vc.sortOf(t)
	if s == SInt {
		return payload
	}
	k := mangle(shortTypeKey(t))
	bn, un := "box_"+k, "unbox_"+k
	vc.declareFun(bn, []Sort{s}, SInt)
	vc.declareFun(un, []Sort{SInt}, s)
	return app(s, un, payload)
}

// heap names ---------------------------------------------------------------

type heapKind int

const (
	hkObj  heapKind = iota // H_T : Array Int T        (pointees)
	hkArr                  // A_T : Array Int (Array Int T)  (backing arrays)
	hkMapD                 // MD_K_V : Array Int (Array K Bool)
	hkMapV                 // MV_K_V : Array Int (Array K V)
	hkMapL                 // ML_K_V : Array Int Int
)

type heapID struct {
	name string
	sort Sort
}

func (vc *VC) objHeap(t types.Type) heapID {
	h := heapID{"H_" + mangle(shortTypeKey(t)), arraySort(SInt, vc.sortOf(t))}
	vc.noteHeapType(h.name, t)
	return vc.noteHeapSort(h)
}
func (vc *VC) arrHeap(elem types.Type) heapID {
	h := heapID{"A_" + mangle(shortTypeKey(elem)), arraySort(SInt, arraySort(SInt, vc.sortOf(elem)))}
	vc.noteHeapType(h.name, elem)
	return vc.noteHeapSort(h)
}

func (vc *VC) noteHeapSort(h heapID) heapID {
	if vc.heapSorts == nil {
		vc.heapSorts = map[string]Sort{}
	}
	vc.heapSorts[h.name] = h.sort
	return h
}

func (vc *VC) noteHeapType(name string, t types.Type) {
	if vc.heapTypes == nil {
		vc.heapTypes = map[string]types.Type{}
	}
	if _, ok := vc.heapTypes[name]; !ok {
		vc.heapTypes[name] = t
	}
}
func (vc *VC) mapHeaps(m *types.Map) (d, v, l heapID) {
	k := mangle(shortTypeKey(m.Key())) + "_" + mangle(shortTypeKey(m.Elem()))
	ks, vs := vc.sortOf(m.Key()), vc.sortOf(m.Elem())
	return vc.noteHeapSort(heapID{"MD_" + k, arraySort(SInt, arraySort(ks, SBool))}),
		vc.noteHeapSort(heapID{"MV_" + k, arraySort(SInt, arraySort(ks, vs))}),
		vc.noteHeapSort(heapID{"ML_" + k, arraySort(SInt, SInt)})
}

// constants ------------------------------------------------------------------

func (vc *VC) constTerm(t types.Type, v constant.Value) Term {
	if v == nil { // nil or zero value
		return vc.zero(t)
	}
	s := vc.sortOf(t)
	switch s {
	case SBool:
		if constant.BoolVal(v) {
			return tTrue
		}
		return tFalse
	case SInt:
		if v.Kind() == constant.Float { // e.g. untyped float constant converted
			v = constant.ToInt(v)
		}
		return bigIntLit(v.ExactString())
	case SReal:
		f := constant.ToFloat(v)
		num, den := constant.Num(f), constant.Denom(f)
		ns, ds := num.ExactString(), den.ExactString()
		neg := strings.HasPrefix(ns, "-")
		if neg {
			ns = ns[1:]
		}
		var r string
		if ds == "1" {
			r = ns + ".0"
		} else {
			r = "(/ " + ns + ".0 " + ds + ".0)"
		}
		if neg {
			r = "(- " + r + ")"
		}
		return Term{r, SReal}
	case SString:
		return strLit(constant.StringVal(v))
	}
	panic(engErr("constant of type %s", t))
}

// script ----------------------------------------------------------------------

// script renders the query for one obligation: everything asserted before
// position upto, the path condition, and the negated goal.
func (vc *VC) script(upto int, path Term, goal Term, wantModel bool) string {
	return vc.scriptOpt(upto, path, goal, wantModel, false)
}

// scriptOpt: with dropQuant, assertions containing quantifiers are left out (used for
// cover queries only: a weaker context, so "sat" is a heuristic vacuity guard, never a proof step).
func (vc *VC) scriptOpt(upto int, path Term, goal Term, wantModel bool, dropQuant bool) string {
	var b strings.Builder
	if wantModel {
		b.WriteString("(set-option :produce-models true)\n")
	}
	b.WriteString("(set-logic ALL)\n")
	for _, d := range vc.decls {
		if dropQuant && strings.HasPrefix(d, "(assert (forall ") {
			continue // the quantified well-formedness facts of the heaps go with the other quantified assumptions
		}
		b.WriteString(d)
		b.WriteByte('\n')
	}
	for _, a := range vc.asserts[:upto] {
		if dropQuant && (strings.Contains(a, "(forall ") || strings.Contains(a, "(exists ")) {
			if strings.HasPrefix(a, "\x00(define-fun ") {
				// keep the name, drop the quantified definition
				rest := a[len("\x00(define-fun "):]
				name, rest, _ := strings.Cut(rest, " () ")
				end := skipSexpr(rest, 0)
				b.WriteString("(declare-const " + name + " " + rest[:end] + ")\n")
			}
			continue
		}
		if strings.HasPrefix(a, "\x00") {
			b.WriteString(a[1:])
			b.WriteString("\n")
			continue
		}
		b.WriteString("(assert ")
		b.WriteString(a)
		b.WriteString(")\n")
	}
	b.WriteString("(assert " + path.S + ")\n")
	b.WriteString("(assert (not " + goal.S + "))\n")
	b.WriteString("(check-sat)\n")
	return b.String()
}

func sortedKeys[V any](m map[string]V) []string {
	ks := make([]string, 0, len(m))
	for k := range m {
		ks = append(ks, k)
	}
	sort.Strings(ks)
	return ks
}
