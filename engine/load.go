package main

// Loading: go/packages over /repo's working tree (tag verif), contract parsing
// from the comment-only zz_verif_contracts.go files, ghost code generation,
// re-type-checking of the target packages together with the ghost code (in
// memory only), SSA construction (naive form: locals stay memory cells).

import (
	"bytes"
	"fmt"
	"go/ast"
	"go/parser"
	"go/token"
	"go/types"
	"os"
	"path/filepath"
	"regexp"
	"sort"
	"strings"

	"golang.org/x/tools/go/packages"
	"golang.org/x/tools/go/ssa"
)

// repoDir: the tree under verification. Always /repo for the registered checks; the developer
// tool bin/seedrun2 points it at a scratch worktree (GOCV_REPO) to try a seeded change without
// touching /repo.
var repoDir = func() string {
	if d := os.Getenv("GOCV_REPO"); d != "" {
		return d
	}
	return "/repo"
}()
const modPath = "github.com/go-swagger/go-swagger"

// Clause is one requires/ensures/invariant clause.
type Clause struct {
	Text  string // source text of the expression (after ==> rewriting it is in Go)
	Orig  string // as written
	Ghost string // name of the generated ghost function
	Line  int
	Tags  []string // properties this clause is checked for (empty: all of the contract's)
	Known bool     // listed as a known finding: checked, reported, never assumed
}

type LoopSpec struct {
	N          int
	Invariants []*Clause
	Steps      []*Clause // transition clauses: old(e) is e at the loop head of the same iteration; checked at back edges, never assumed
	// locals (beyond the function's parameters) passed to the invariant functions
	Locals []*types.Var
}

// Contract is the parsed //@ block of one function.
type Contract struct {
	Key      string // "CompareIntValues" or "(*SpecAnalyser).compareParams"
	PkgPath  string
	Props    []string
	Safety   bool
	Pure     bool
	Trusted  bool
	Inline   bool
	NoInline bool // thin unit: callees without contract are not executed in place (except small leaves)
	MayPanic bool
	Requires []*Clause
	Ensures  []*Clause
	Modifies []string // Go expressions; nil = unspecified (treated as nothing), "nothing"
	ModGhost string
	HasMod   bool
	Loops    map[int]*LoopSpec
	File     string
	Line     int

	Decl    *ast.FuncDecl
	Obj     *types.Func
	Fn      *ssa.Function
	Params  []*types.Var // receiver first
	Results []string     // names used for results in ensures
	mangled string
}

// StableField: "//@ stable Cxx T.f [writers f1, f2]": no function of the package stores to field f
// of an object of struct type T that it did not allocate itself (checked on the SSA of the whole
// package: the census), except the listed writers; across unmodelled calls and loop cuts the
// field therefore keeps its value.
type StableField struct {
	Props   []string
	Type    string
	Field   string
	Writers []string
	Line    int
	File    string
}

type TargetPkg struct {
	Stable    []*StableField
	Path      string
	Pkg       *packages.Package
	Types     *types.Package
	Info      *types.Info
	Files     []*ast.File
	SSA       *ssa.Package
	Contracts map[string]*Contract
	GhostSrc  map[string][]byte // generated + user ghost files (name -> source)
}

type Engine struct {
	Fset      *token.FileSet
	Prog      *ssa.Program
	Targets   map[string]*TargetPkg
	AllPkgs   map[string]*packages.Package
	SSAPkgs   map[string]*ssa.Package
	Contracts map[*ssa.Function]*Contract
	GhostDir  string
	Tier      string
	Verbose   bool
	inlineOK  map[*ssa.Function]int
	srcCache  map[string][]byte
	CurProp   string
	boxed     []types.Type
	opaque    map[*ssa.Function]bool
	recGhost  map[*ssa.Function]bool
	reachCache map[*ssa.Function]map[*ssa.Function]bool
	globCache map[*ssa.Function]map[*ssa.Global]bool
}

var rxImpl = regexp.MustCompile(`==>`)

// rewriteImplies turns `a ==> b ==> c` (lowest precedence, right assoc) into Go.
func rewriteImplies(s string) string {
	// split on top-level ==> (not inside parentheses / brackets / braces / strings)
	depth := 0
	inStr := byte(0)
	var parts []string
	last := 0
	for i := 0; i < len(s); i++ {
		c := s[i]
		if inStr != 0 {
			if c == '\\' && inStr == '"' {
				i++
			} else if c == inStr {
				inStr = 0
			}
			continue
		}
		switch c {
		case '"', '`', '\'':
			inStr = c
		case '(', '[', '{':
			depth++
		case ')', ']', '}':
			depth--
		case '=':
			if depth == 0 && strings.HasPrefix(s[i:], "==>") {
				parts = append(parts, s[last:i])
				last = i + 3
				i += 2
			}
		}
	}
	parts = append(parts, s[last:])
	// rewrite nested implications inside parenthesised groups first
	for i, p := range parts {
		parts[i] = rewriteNested(p)
	}
	res := strings.TrimSpace(parts[len(parts)-1])
	for i := len(parts) - 2; i >= 0; i-- {
		res = "(!(" + strings.TrimSpace(parts[i]) + ") || (" + res + "))"
	}
	return res
}

// rewriteNested rewrites ==> inside parenthesised sub-expressions.
func rewriteNested(s string) string {
	if !strings.Contains(s, "==>") {
		return s
	}
	var b strings.Builder
	for i := 0; i < len(s); i++ {
		c := s[i]
		if c == '(' || c == '{' {
			// find matching close
			depth := 0
			j := i
			inStr := byte(0)
			for ; j < len(s); j++ {
				d := s[j]
				if inStr != 0 {
					if d == '\\' && inStr == '"' {
						j++
					} else if d == inStr {
						inStr = 0
					}
					continue
				}
				if d == '"' || d == '`' || d == '\'' {
					inStr = d
				} else if d == '(' || d == '{' || d == '[' {
					depth++
				} else if d == ')' || d == '}' || d == ']' {
					depth--
					if depth == 0 {
						break
					}
				}
			}
			if j >= len(s) {
				b.WriteString(s[i:])
				return b.String()
			}
			inner := s[i+1 : j]
			if strings.Contains(inner, "==>") {
				if c == '{' && strings.Contains(inner, "return") {
					// closure body "{ return X }": rewrite X
					k := strings.Index(inner, "return")
					inner = inner[:k+6] + " " + rewriteImplies(inner[k+6:])
				} else {
					inner = rewriteImplies(inner)
				}
			}
			b.WriteByte(c)
			b.WriteString(inner)
			b.WriteByte(s[j])
			i = j
			continue
		}
		b.WriteByte(c)
	}
	return b.String()
}

func contractKey(fd *ast.FuncDecl) string {
	if fd.Recv == nil || len(fd.Recv.List) == 0 {
		return fd.Name.Name
	}
	t := fd.Recv.List[0].Type
	star := false
	if s, ok := t.(*ast.StarExpr); ok {
		star = true
		t = s.X
	}
	name := ""
	switch x := t.(type) {
	case *ast.Ident:
		name = x.Name
	case *ast.IndexExpr:
		if id, ok := x.X.(*ast.Ident); ok {
			name = id.Name
		}
	}
	if star {
		return "(*" + name + ")." + fd.Name.Name
	}
	return name + "." + fd.Name.Name
}

func mangleKey(k string) string {
	k = strings.NewReplacer("(*", "P", ")", "", ".", "_", "#", "_").Replace(k)
	return k
}

// parseContracts reads the //@ lines of a contract file.
var stableOut []*StableField // filled by parseContracts (loading is sequential)

func parseContracts(fset *token.FileSet, f *ast.File, pkgPath string) (map[string]*Contract, error) {
	res := map[string]*Contract{}
	stableOut = nil
	var cur *Contract
	var lastClause *Clause
	var lastMod bool
	fname := fset.Position(f.Pos()).Filename
	for _, cg := range f.Comments {
		for _, c := range cg.List {
			if !strings.HasPrefix(c.Text, "//@") {
				continue
			}
			line := fset.Position(c.Pos()).Line
			text := strings.TrimSpace(c.Text[3:])
			if text == "" {
				continue
			}
			if strings.HasPrefix(text, "|") { // continuation
				cont := strings.TrimSpace(text[1:])
				if lastClause != nil {
					lastClause.Orig += " " + cont
				} else if lastMod && cur != nil {
					cur.Modifies[len(cur.Modifies)-1] += " " + cont
				} else {
					return nil, fmt.Errorf("%s:%d: continuation without clause", fname, line)
				}
				continue
			}
			lastClause, lastMod = nil, false
			kw, rest, _ := strings.Cut(text, " ")
			rest = strings.TrimSpace(rest)
			if kw == "stable" {
				// stable C06 codeGenOpBuilder.Authed [writers a, b]
				fields := strings.Fields(rest)
				sf := &StableField{Line: line, File: fname}
				k := 0
				for k < len(fields) && len(fields[k]) == 3 && fields[k][0] == 'C' {
					sf.Props = append(sf.Props, fields[k])
					k++
				}
				if k >= len(fields) || !strings.Contains(fields[k], ".") {
					return nil, fmt.Errorf("%s:%d: bad stable directive %q", fname, line, rest)
				}
				tf := strings.SplitN(fields[k], ".", 2)
				sf.Type, sf.Field = tf[0], tf[1]
				if i := strings.Index(rest, "writers"); i >= 0 {
					for _, w := range strings.Split(rest[i+len("writers"):], ",") {
						if w = strings.TrimSpace(w); w != "" {
							sf.Writers = append(sf.Writers, w)
						}
					}
				}
				stableOut = append(stableOut, sf)
				continue
			}
			if kw == "func" {
				cur = &Contract{Key: rest, PkgPath: pkgPath, Loops: map[int]*LoopSpec{}, File: fname, Line: line, mangled: mangleKey(rest)}
				if res[rest] != nil {
					return nil, fmt.Errorf("%s:%d: duplicate contract for %s", fname, line, rest)
				}
				res[rest] = cur
				continue
			}
			if cur == nil {
				return nil, fmt.Errorf("%s:%d: clause before any func", fname, line)
			}
			switch kw {
			case "props":
				cur.Props = append(cur.Props, strings.Fields(rest)...)
			case "safety":
				cur.Safety = true
			case "pure":
				cur.Pure = true
			case "trusted":
				cur.Trusted = true
			case "inline":
				cur.Inline = true
			case "noinline":
				cur.NoInline = true
			case "maypanic":
				cur.MayPanic = true
			case "requires":
				var tags []string
				for strings.HasPrefix(rest, "@") {
					t, r, _ := strings.Cut(rest, " ")
					tags = append(tags, t[1:])
					rest = strings.TrimSpace(r)
				}
				lastClause = &Clause{Orig: rest, Line: line, Tags: tags}
				cur.Requires = append(cur.Requires, lastClause)
			case "ensures":
				var tags []string
				for strings.HasPrefix(rest, "@") {
					t, r, _ := strings.Cut(rest, " ")
					tags = append(tags, t[1:])
					rest = strings.TrimSpace(r)
				}
				lastClause = &Clause{Orig: rest, Line: line, Tags: tags}
				cur.Ensures = append(cur.Ensures, lastClause)
			case "modifies":
				cur.HasMod = true
				if rest != "nothing" {
					cur.Modifies = append(cur.Modifies, rest)
					lastMod = true
				}
			case "loop":
				var n int
				var kind string
				if _, err := fmt.Sscanf(rest, "%d %s", &n, &kind); err != nil || (kind != "invariant" && kind != "step") {
					return nil, fmt.Errorf("%s:%d: bad loop clause %q", fname, line, rest)
				}
				i := strings.Index(rest, kind)
				body := strings.TrimSpace(rest[i+len(kind):])
				var tags []string
				for strings.HasPrefix(body, "@") {
					t, r, _ := strings.Cut(body, " ")
					tags = append(tags, t[1:])
					body = strings.TrimSpace(r)
				}
				lastClause = &Clause{Orig: body, Line: line, Tags: tags}
				ls := cur.Loops[n]
				if ls == nil {
					ls = &LoopSpec{N: n}
					cur.Loops[n] = ls
				}
				if kind == "step" {
					ls.Steps = append(ls.Steps, lastClause)
				} else {
					ls.Invariants = append(ls.Invariants, lastClause)
				}
			default:
				return nil, fmt.Errorf("%s:%d: unknown clause %q", fname, line, kw)
			}
		}
	}
	return res, nil
}

// importTracker builds the import list of a generated file.
type importTracker struct {
	self  *types.Package
	names map[string]string // path -> name
	used  map[string]bool   // names in use
}

func (it *importTracker) qualifier(p *types.Package) string {
	if p == it.self {
		return ""
	}
	if n, ok := it.names[p.Path()]; ok {
		return n
	}
	n := p.Name()
	for it.used[n] {
		n += "x"
	}
	it.used[n] = true
	it.names[p.Path()] = n
	return n
}

func (it *importTracker) addNamed(name, path string) {
	if _, ok := it.names[path]; ok {
		return
	}
	it.names[path] = name
	it.used[name] = true
}

// loopStmts returns the for/range statements of a function body in source order
// (function literals excluded: they are separate SSA functions).
func loopStmts(body *ast.BlockStmt) []ast.Stmt {
	var res []ast.Stmt
	ast.Inspect(body, func(n ast.Node) bool {
		switch n.(type) {
		case *ast.FuncLit:
			return false
		case *ast.ForStmt, *ast.RangeStmt:
			res = append(res, n.(ast.Stmt))
		}
		return true
	})
	return res
}

func loopBodyPos(s ast.Stmt) token.Pos {
	switch x := s.(type) {
	case *ast.ForStmt:
		return x.Body.Lbrace + 1
	case *ast.RangeStmt:
		return x.Body.Lbrace + 1
	}
	return s.Pos()
}

// genGhost generates the ghost source for the contracts of a package.
func (e *Engine) genGhost(tp *TargetPkg) ([]byte, error) {
	it := &importTracker{self: tp.Types, names: map[string]string{}, used: map[string]bool{}}
	// imports of the package's own files, available to contract expressions
	pkgImports := map[string]string{} // name -> path
	for _, f := range tp.Files {
		for _, im := range f.Imports {
			path := strings.Trim(im.Path.Value, `"`)
			name := ""
			if im.Name != nil {
				name = im.Name.Name
			} else if p := e.AllPkgs[path]; p != nil {
				name = p.Name
			} else {
				name = filepath.Base(path)
			}
			if name == "_" || name == "." {
				continue
			}
			if _, ok := pkgImports[name]; !ok {
				pkgImports[name] = path
			}
		}
	}
	decls := map[string]*ast.FuncDecl{}
	ninit := 0
	for _, f := range tp.Files {
		for _, d := range f.Decls {
			if fd, ok := d.(*ast.FuncDecl); ok {
				k := contractKey(fd)
				if k == "init" && fd.Recv == nil {
					ninit++
					k = fmt.Sprintf("init#%d", ninit) // go/ssa numbers init functions the same way
				}
				decls[k] = fd
			}
		}
	}
	var body bytes.Buffer
	useImports := func(expr string, shadow map[string]bool) {
		ex, err := parser.ParseExpr(expr)
		if err != nil {
			return
		}
		ast.Inspect(ex, func(n ast.Node) bool {
			if se, ok := n.(*ast.SelectorExpr); ok {
				if id, ok := se.X.(*ast.Ident); ok && !shadow[id.Name] {
					if path, ok := pkgImports[id.Name]; ok {
						it.addNamed(id.Name, path)
					}
				}
			}
			return true
		})
	}
	keys := make([]string, 0, len(tp.Contracts))
	for k := range tp.Contracts {
		keys = append(keys, k)
	}
	sort.Strings(keys)
	for _, k := range keys {
		c := tp.Contracts[k]
		fd := decls[k]
		if fd == nil {
			return nil, fmt.Errorf("contract-unbound: %s:%d: no function %s in package %s", c.File, c.Line, k, tp.Path)
		}
		c.Decl = fd
		obj, _ := tp.Info.Defs[fd.Name].(*types.Func)
		if obj == nil {
			return nil, fmt.Errorf("contract-unbound: no object for %s", k)
		}
		c.Obj = obj
		sig := obj.Type().(*types.Signature)
		// parameter list text
		var ps []string
		shadow := map[string]bool{}
		c.Params = nil
		pn := 0
		addParam := func(v *types.Var, variadicLast bool) {
			name := v.Name()
			if name == "" || name == "_" {
				name = fmt.Sprintf("vs_p%d", pn)
			}
			pn++
			shadow[name] = true
			ps = append(ps, name+" "+types.TypeString(v.Type(), it.qualifier))
			c.Params = append(c.Params, v)
		}
		if sig.Recv() != nil {
			addParam(sig.Recv(), false)
		}
		for i := 0; i < sig.Params().Len(); i++ {
			addParam(sig.Params().At(i), false)
		}
		paramText := strings.Join(ps, ", ")
		var rs []string
		c.Results = nil
		for i := 0; i < sig.Results().Len(); i++ {
			v := sig.Results().At(i)
			name := v.Name()
			if name == "" || name == "_" {
				if sig.Results().Len() == 1 {
					name = "result"
				} else {
					name = fmt.Sprintf("result%d", i)
				}
			}
			shadow[name] = true
			c.Results = append(c.Results, name)
			rs = append(rs, name+" "+types.TypeString(v.Type(), it.qualifier))
		}
		postParams := paramText
		if len(rs) > 0 {
			if postParams != "" {
				postParams += ", "
			}
			postParams += strings.Join(rs, ", ")
		}
		emit := func(name, params string, cl *Clause) {
			cl.Text = rewriteImplies(rewriteOld(cl.Orig))
			cl.Ghost = name
			useImports(cl.Text, shadow)
			fmt.Fprintf(&body, "//line %s:%d\nfunc %s(%s) bool { return %s }\n\n", c.File, cl.Line, name, params, cl.Text)
		}
		for i, cl := range c.Requires {
			emit(fmt.Sprintf("vs_pre_%s_%d", c.mangled, i+1), paramText, cl)
		}
		for i, cl := range c.Ensures {
			emit(fmt.Sprintf("vs_post_%s_%d", c.mangled, i+1), postParams, cl)
		}
		if len(c.Modifies) > 0 {
			c.ModGhost = "vs_mod_" + c.mangled
			fmt.Fprintf(&body, "func %s(%s) {\n", c.ModGhost, paramText)
			for _, m := range c.Modifies {
				for _, part := range splitTopLevel(m) {
					part = strings.TrimSpace(part)
					useImports(part, shadow)
					fmt.Fprintf(&body, "\tvs_modifies(%s)\n", part)
				}
			}
			fmt.Fprintf(&body, "}\n\n")
		}
		// loops
		if len(c.Loops) > 0 {
			loops := loopStmts(fd.Body)
			for n, ls := range c.Loops {
				if n < 1 || n > len(loops) {
					return nil, fmt.Errorf("contract-unbound: %s: loop %d does not exist (function has %d loops)", k, n, len(loops))
				}
				pos := loopBodyPos(loops[n-1])
				scope := tp.Types.Scope().Innermost(pos)
				seen := map[*types.Var]bool{}
				ls.Locals = nil
				for _, cl := range append(append([]*Clause{}, ls.Invariants...), ls.Steps...) {
					txt := rewriteImplies(rewriteOld(cl.Orig))
					ex, err := parser.ParseExpr(txt)
					if err != nil {
						return nil, fmt.Errorf("%s:%d: %v", c.File, cl.Line, err)
					}
					ast.Inspect(ex, func(nd ast.Node) bool {
						switch x := nd.(type) {
						case *ast.SelectorExpr:
							ast.Inspect(x.X, func(nd2 ast.Node) bool { return true })
							// only visit X (the field name is not a free identifier)
							collectIdents(x.X, scope, pos, tp.Types, seen, &ls.Locals)
							return false
						case *ast.Ident:
							collectIdents(x, scope, pos, tp.Types, seen, &ls.Locals)
						}
						return true
					})
				}
				var lps []string
				lshadow := map[string]bool{}
				for _, v := range ls.Locals {
					lps = append(lps, v.Name()+" "+types.TypeString(v.Type(), it.qualifier))
					lshadow[v.Name()] = true
				}
				for i, cl := range ls.Invariants {
					cl.Text = rewriteImplies(rewriteOld(cl.Orig))
					cl.Ghost = fmt.Sprintf("vs_inv_%s_%d_%d", c.mangled, n, i+1)
					useImports(cl.Text, lshadow)
					fmt.Fprintf(&body, "//line %s:%d\nfunc %s(%s) bool { return %s }\n\n", c.File, cl.Line, cl.Ghost, strings.Join(lps, ", "), cl.Text)
				}
				for i, cl := range ls.Steps {
					cl.Text = rewriteImplies(rewriteOld(cl.Orig))
					cl.Ghost = fmt.Sprintf("vs_step_%s_%d_%d", c.mangled, n, i+1)
					useImports(cl.Text, lshadow)
					fmt.Fprintf(&body, "//line %s:%d\nfunc %s(%s) bool { return %s }\n\n", c.File, cl.Line, cl.Ghost, strings.Join(lps, ", "), cl.Text)
				}
			}
		}
	}
	var out bytes.Buffer
	fmt.Fprintf(&out, "package %s\n\n", tp.Types.Name())
	paths := make([]string, 0, len(it.names))
	for p := range it.names {
		paths = append(paths, p)
	}
	sort.Strings(paths)
	if len(paths) > 0 {
		out.WriteString("import (\n")
		for _, p := range paths {
			fmt.Fprintf(&out, "\t%s %q\n", it.names[p], p)
		}
		out.WriteString(")\n\n")
	}
	out.Write(body.Bytes())
	return out.Bytes(), nil
}

func collectIdents(n ast.Node, scope *types.Scope, pos token.Pos, pkg *types.Package, seen map[*types.Var]bool, out *[]*types.Var) {
	ast.Inspect(n, func(nd ast.Node) bool {
		switch x := nd.(type) {
		case *ast.FuncLit:
			// parameters of the literal shadow; handled approximately: names
			// bound by the literal are not looked up.
			bound := map[string]bool{}
			for _, f := range x.Type.Params.List {
				for _, nm := range f.Names {
					bound[nm.Name] = true
				}
			}
			ast.Inspect(x.Body, func(nd2 ast.Node) bool {
				switch y := nd2.(type) {
				case *ast.SelectorExpr:
					collectIdentsBound(y.X, scope, pos, pkg, seen, out, bound)
					return false
				case *ast.Ident:
					if !bound[y.Name] {
						lookupIdent(y, scope, pos, pkg, seen, out)
					}
				}
				return true
			})
			return false
		case *ast.SelectorExpr:
			collectIdents(x.X, scope, pos, pkg, seen, out)
			return false
		case *ast.KeyValueExpr:
			collectIdents(x.Value, scope, pos, pkg, seen, out)
			return false
		case *ast.Ident:
			lookupIdent(x, scope, pos, pkg, seen, out)
		}
		return true
	})
}

func collectIdentsBound(n ast.Node, scope *types.Scope, pos token.Pos, pkg *types.Package, seen map[*types.Var]bool, out *[]*types.Var, bound map[string]bool) {
	ast.Inspect(n, func(nd ast.Node) bool {
		switch y := nd.(type) {
		case *ast.SelectorExpr:
			collectIdentsBound(y.X, scope, pos, pkg, seen, out, bound)
			return false
		case *ast.Ident:
			if !bound[y.Name] {
				lookupIdent(y, scope, pos, pkg, seen, out)
			}
		}
		return true
	})
}

func lookupIdent(id *ast.Ident, scope *types.Scope, pos token.Pos, pkg *types.Package, seen map[*types.Var]bool, out *[]*types.Var) {
	if scope == nil {
		return
	}
	_, obj := scope.LookupParent(id.Name, pos)
	v, ok := obj.(*types.Var)
	if !ok || v.Parent() == pkg.Scope() || v.Parent() == types.Universe || v.IsField() {
		return
	}
	if !seen[v] {
		seen[v] = true
		*out = append(*out, v)
	}
}

var rxOld = regexp.MustCompile(`\bold\(`)

func rewriteOld(s string) string { return rxOld.ReplaceAllString(s, "vs_old(") }

func splitTopLevel(s string) []string {
	var parts []string
	depth, last := 0, 0
	for i := 0; i < len(s); i++ {
		switch s[i] {
		case '(', '[', '{':
			depth++
		case ')', ']', '}':
			depth--
		case ',':
			if depth == 0 {
				parts = append(parts, s[last:i])
				last = i + 1
			}
		}
	}
	return append(parts, s[last:])
}

type mapImporter struct {
	m map[string]*types.Package
}

func (mi mapImporter) Import(path string) (*types.Package, error) {
	if p := mi.m[path]; p != nil {
		return p, nil
	}
	return nil, fmt.Errorf("ghost code imports %q, which is not a dependency of the loaded packages", path)
}

// Load loads the given package paths (relative to the module, e.g.
// "cmd/swagger/commands/diff") and prepares everything for verification.
func Load(rel []string, ghostDir string, extra []string) (*Engine, error) {
	e := &Engine{Targets: map[string]*TargetPkg{}, AllPkgs: map[string]*packages.Package{}, SSAPkgs: map[string]*ssa.Package{},
		Contracts: map[*ssa.Function]*Contract{}, GhostDir: ghostDir, inlineOK: map[*ssa.Function]int{}}
	fset := token.NewFileSet()
	e.Fset = fset
	var patterns []string
	for _, r := range rel {
		patterns = append(patterns, modPath+"/"+r)
	}
	patterns = append(patterns, extra...)
	cfg := &packages.Config{
		Mode: packages.LoadAllSyntax, Dir: repoDir, Fset: fset,
		BuildFlags: []string{"-tags=verif"},
		Env:        append(os.Environ(), "GOFLAGS=-mod=readonly", "GOPROXY=off", "GOSUMDB=off", "GOTOOLCHAIN=local"),
		ParseFile: func(fset *token.FileSet, filename string, src []byte) (*ast.File, error) {
			return parser.ParseFile(fset, filename, src, parser.ParseComments|parser.SkipObjectResolution)
		},
	}
	pkgs, err := packages.Load(cfg, patterns...)
	if err != nil {
		return nil, err
	}
	var loadErrs []string
	packages.Visit(pkgs, nil, func(p *packages.Package) {
		e.AllPkgs[p.PkgPath] = p
		for _, er := range p.Errors {
			loadErrs = append(loadErrs, er.Error())
		}
	})
	if len(loadErrs) > 0 {
		return nil, fmt.Errorf("load errors:\n%s", strings.Join(loadErrs, "\n"))
	}
	// topological order of all packages
	var order []*packages.Package
	seen := map[string]bool{}
	var visit func(p *packages.Package)
	visit = func(p *packages.Package) {
		if seen[p.PkgPath] {
			return
		}
		seen[p.PkgPath] = true
		paths := make([]string, 0, len(p.Imports))
		for k := range p.Imports {
			paths = append(paths, k)
		}
		sort.Strings(paths)
		for _, k := range paths {
			visit(p.Imports[k])
		}
		order = append(order, p)
	}
	for _, p := range pkgs {
		visit(p)
	}
	isTarget := map[string]bool{}
	for _, r := range rel {
		isTarget[modPath+"/"+r] = true
	}
	typesOf := map[string]*types.Package{}
	prog := ssa.NewProgram(fset, ssa.NaiveForm|ssa.GlobalDebug|ssa.InstantiateGenerics)
	e.Prog = prog
	for _, p := range order {
		if p.Types == nil || p.IllTyped {
			return nil, fmt.Errorf("package %s is ill-typed", p.PkgPath)
		}
		if !isTarget[p.PkgPath] {
			typesOf[p.PkgPath] = p.Types
			if p.PkgPath == "unsafe" {
				continue
			}
			e.SSAPkgs[p.PkgPath] = prog.CreatePackage(p.Types, p.Syntax, p.TypesInfo, true)
			continue
		}
		tp := &TargetPkg{Path: p.PkgPath, Pkg: p, Types: p.Types, Info: p.TypesInfo, Files: p.Syntax, Contracts: map[string]*Contract{}, GhostSrc: map[string][]byte{}}
		e.Targets[p.PkgPath] = tp
		for _, f := range p.Syntax {
			fn := fset.Position(f.Pos()).Filename
			if filepath.Base(fn) == "zz_verif_contracts.go" {
				cs, err := parseContracts(fset, f, p.PkgPath)
				if err != nil {
					return nil, err
				}
				tp.Contracts = cs
				tp.Stable = stableOut
			}
		}
		gen, err := e.genGhost(tp)
		if err != nil {
			return nil, err
		}
		files := append([]*ast.File{}, p.Syntax...)
		tp.GhostSrc["zz_vs_generated.go"] = gen
		pf, err := parser.ParseFile(fset, filepath.Join(p.Dir, "zz_vs_generated.go"), gen, parser.ParseComments|parser.SkipObjectResolution)
		if err != nil {
			return nil, fmt.Errorf("generated ghost code does not parse: %v", err)
		}
		files = append(files, pf)
		prel := []byte("package " + p.Types.Name() + "\n" + preludeSrc)
		tp.GhostSrc["zz_vs_prelude.go"] = prel
		plf, err := parser.ParseFile(fset, filepath.Join(p.Dir, "zz_vs_prelude.go"), prel, parser.ParseComments|parser.SkipObjectResolution)
		if err != nil {
			return nil, err
		}
		files = append(files, plf)
		// user ghost files
		gdir := filepath.Join(ghostDir, strings.TrimPrefix(p.PkgPath, modPath+"/"))
		ents, _ := os.ReadDir(gdir)
		for _, en := range ents {
			if !strings.HasSuffix(en.Name(), ".go") {
				continue
			}
			src, err := os.ReadFile(filepath.Join(gdir, en.Name()))
			if err != nil {
				return nil, err
			}
			name := "zz_vs_" + en.Name()
			rs, err := rewriteArrowsInFile(string(src))
			if err != nil {
				return nil, fmt.Errorf("ghost file %s: %v", en.Name(), err)
			}
			src = []byte(rs)
			tp.GhostSrc[name] = src
			gf, err := parser.ParseFile(fset, filepath.Join(gdir, en.Name()), src, parser.ParseComments|parser.SkipObjectResolution)
			if err != nil {
				return nil, fmt.Errorf("ghost file %s: %v", en.Name(), err)
			}
			files = append(files, gf)
		}
		info := &types.Info{
			Types: map[ast.Expr]types.TypeAndValue{}, Defs: map[*ast.Ident]types.Object{}, Uses: map[*ast.Ident]types.Object{},
			Implicits: map[ast.Node]types.Object{}, Selections: map[*ast.SelectorExpr]*types.Selection{}, Scopes: map[ast.Node]*types.Scope{},
			Instances: map[*ast.Ident]types.Instance{}, FileVersions: map[*ast.File]string{},
		}
		var terrs []string
		conf := types.Config{Importer: mapImporter{typesOf}, Error: func(err error) { terrs = append(terrs, err.Error()) }, GoVersion: "go1.21"}
		tpkg, _ := conf.Check(p.PkgPath, fset, files, info)
		if len(terrs) > 0 {
			if len(terrs) > 12 {
				terrs = terrs[:12]
			}
			return nil, fmt.Errorf("contract-unbound: ghost/contract code does not type-check against %s:\n%s", p.PkgPath, strings.Join(terrs, "\n"))
		}
		tp.Types, tp.Info, tp.Files = tpkg, info, files
		typesOf[p.PkgPath] = tpkg
		tp.SSA = prog.CreatePackage(tpkg, files, info, true)
		e.SSAPkgs[p.PkgPath] = tp.SSA
	}
	e.markKnownClauses()
	for _, tp := range e.Targets {
		tp.SSA.Build()
		// bind contracts to SSA functions
		for k, c := range tp.Contracts {
			// re-resolve object in the re-checked package
			var fn *ssa.Function
			if c.Decl.Recv == nil && strings.HasPrefix(k, "init#") {
				fn = tp.SSA.Func(k)
			} else if c.Decl.Recv == nil {
				fn = tp.SSA.Func(c.Decl.Name.Name)
			} else {
				obj, _ := tp.Info.Defs[c.Decl.Name].(*types.Func)
				if obj != nil {
					fn = prog.FuncValue(obj)
					c.Obj = obj
				}
			}
			if fn == nil {
				return nil, fmt.Errorf("contract-unbound: no SSA function for %s", k)
			}
			c.Fn = fn
			e.Contracts[fn] = c
			// params in the re-checked package
			sig := fn.Signature
			c.Params = nil
			if sig.Recv() != nil {
				c.Params = append(c.Params, sig.Recv())
			}
			for i := 0; i < sig.Params().Len(); i++ {
				c.Params = append(c.Params, sig.Params().At(i))
			}
			// loop locals must be re-resolved in the new type info (positions are stable)
			for _, ls := range c.Loops {
				for i, v := range ls.Locals {
					ls.Locals[i] = findVarByPos(tp.Info, v.Pos(), v.Name())
					if ls.Locals[i] == nil {
						return nil, fmt.Errorf("internal: local %s not found after re-check", v.Name())
					}
				}
			}
		}
	}
	return e, nil
}

func findVarByPos(info *types.Info, pos token.Pos, name string) *types.Var {
	for id, obj := range info.Defs {
		if id.Pos() == pos && id.Name == name {
			if v, ok := obj.(*types.Var); ok {
				return v
			}
		}
	}
	return nil
}

// ghostFunc finds a function of a target package by name.
func (e *Engine) ghostFunc(pkgPath, name string) *ssa.Function {
	if tp := e.Targets[pkgPath]; tp != nil {
		return tp.SSA.Func(name)
	}
	return nil
}

func (e *Engine) ensureBuilt(fn *ssa.Function) {
	if fn.Blocks == nil && fn.Pkg != nil {
		fn.Pkg.Build()
	}
}

// rewriteArrowsInFile rewrites every `a ==> b` in a ghost source file. An
// implication extends over its innermost enclosing bracket group (split at
// top-level commas) or, directly inside a block, over its return statement.
func rewriteArrowsInFile(src string) (string, error) {
	for guard := 0; guard < 10000; guard++ {
		pos := indexOutsideStrings(src, "==>")
		if pos < 0 {
			return src, nil
		}
		// find innermost enclosing group
		type open struct {
			c   byte
			pos int
		}
		var stack []open
		inStr := byte(0)
		lineComment := false
		for i := 0; i < pos; i++ {
			c := src[i]
			if lineComment {
				if c == '\n' {
					lineComment = false
				}
				continue
			}
			if inStr != 0 {
				if c == '\\' && inStr != '`' {
					i++
				} else if c == inStr {
					inStr = 0
				}
				continue
			}
			switch c {
			case '/':
				if i+1 < len(src) && src[i+1] == '/' {
					lineComment = true
				}
			case '"', '`', '\'':
				inStr = c
			case '(', '[', '{':
				stack = append(stack, open{c, i})
			case ')', ']', '}':
				if len(stack) > 0 {
					stack = stack[:len(stack)-1]
				}
			}
		}
		if len(stack) == 0 {
			return "", fmt.Errorf("==> outside any function body")
		}
		top := stack[len(stack)-1]
		// find matching close
		depth := 0
		end := -1
		inStr = 0
		for i := top.pos; i < len(src); i++ {
			c := src[i]
			if inStr != 0 {
				if c == '\\' && inStr != '`' {
					i++
				} else if c == inStr {
					inStr = 0
				}
				continue
			}
			switch c {
			case '"', '`', '\'':
				inStr = c
			case '(', '[', '{':
				depth++
			case ')', ']', '}':
				depth--
				if depth == 0 {
					end = i
				}
			}
			if end >= 0 {
				break
			}
		}
		if end < 0 {
			return "", fmt.Errorf("unbalanced brackets around ==>")
		}
		var segStart, segEnd int
		if top.c == '{' {
			// statement: from the last "return" before pos (at this depth) to end of statement
			k := strings.LastIndex(src[top.pos:pos], "return")
			if k < 0 {
				return "", fmt.Errorf("==> in a block must be inside a return statement or parentheses")
			}
			segStart = top.pos + k + len("return")
			segEnd = end
			d := 0
			for i := pos; i < end; i++ {
				c := src[i]
				if c == '(' || c == '[' || c == '{' {
					d++
				} else if c == ')' || c == ']' || c == '}' {
					d--
				} else if c == '\n' && d == 0 {
					prev := strings.TrimRight(src[segStart:i], " \t")
					if strings.HasSuffix(prev, "&&") || strings.HasSuffix(prev, "||") || strings.HasSuffix(prev, "==>") || strings.HasSuffix(prev, ",") || strings.HasSuffix(prev, "(") {
						continue
					}
					segEnd = i
					break
				}
			}
		} else {
			// bracket group: the comma-separated part containing pos
			segStart, segEnd = top.pos+1, end
			d := 0
			for i := top.pos + 1; i < end; i++ {
				c := src[i]
				if c == '(' || c == '[' || c == '{' {
					d++
				} else if c == ')' || c == ']' || c == '}' {
					d--
				} else if c == ',' && d == 0 {
					if i < pos {
						segStart = i + 1
					} else {
						segEnd = i
						break
					}
				}
			}
		}
		seg := src[segStart:segEnd]
		src = src[:segStart] + " " + rewriteImplies(seg) + src[segEnd:]
	}
	return "", fmt.Errorf("too many ==> rewrites")
}

func indexOutsideStrings(src, pat string) int {
	inStr := byte(0)
	lineComment := false
	for i := 0; i < len(src); i++ {
		c := src[i]
		if lineComment {
			if c == '\n' {
				lineComment = false
			}
			continue
		}
		if inStr != 0 {
			if c == '\\' && inStr != '`' {
				i++
			} else if c == inStr {
				inStr = 0
			}
			continue
		}
		switch c {
		case '/':
			if i+1 < len(src) && src[i+1] == '/' {
				lineComment = true
			}
		case '"', '`', '\'':
			inStr = c
		default:
			if strings.HasPrefix(src[i:], pat) {
				return i
			}
		}
	}
	return -1
}

// markKnownClauses flags ensures clauses that /verif/known_findings.json lists as
// failing: they stay obligations (reported as KNOWN-FINDING) but are not assumed by callers.
func (e *Engine) markKnownClauses() {
	var ff FindingsFile
	if err := readJSON("/verif/known_findings.json", &ff); err != nil {
		return
	}
	for _, k := range ff.Findings {
		i := strings.Index(k.Obligation, "#ensures[post ")
		if i < 0 {
			continue
		}
		var n int
		if _, err := fmt.Sscanf(k.Obligation[i+len("#ensures[post "):], "%d", &n); err != nil {
			continue
		}
		fname := k.Obligation[:i]
		for _, tp := range e.Targets {
			for _, c := range tp.Contracts {
				if n >= 1 && n <= len(c.Ensures) && knownFnMatches(fname, c) {
					c.Ensures[n-1].Known = true
				}
			}
		}
	}
}

func knownFnMatches(fname string, c *Contract) bool {
	// obligation names use shortFn: "diff.CompareIntValues", "(*diff.SpecAnalyser).compareDescripton"
	pkg := c.PkgPath[strings.LastIndex(c.PkgPath, "/")+1:]
	k := c.Key
	var want string
	switch {
	case strings.HasPrefix(k, "(*"):
		want = "(*" + pkg + "." + k[2:]
	case strings.Contains(k, "."):
		want = "(" + pkg + "." + strings.Replace(k, ".", ").", 1)
	default:
		want = pkg + "." + k
	}
	return fname == want
}
