package main

import (
	"fmt"
	"go/types"
	"os"
	"sort"
	"strings"

	"golang.org/x/tools/go/ssa"
)

// ---------------------------------------------------------------------------
// intrinsics (vs_*)

func boundVarName(fn *ssa.Function, p *ssa.Parameter) string {
	return "bv!" + mangle(fn.Name()) + "!" + p.Name()
}

func (x *Exec) specOld(fr *Frame) *State {
	for f := fr; f != nil; f = f.parent {
		if f.specOldState != nil {
			return f.specOldState
		}
	}
	return nil
}

func (x *Exec) realFrame(fr *Frame) *Frame {
	f := fr
	for f != nil && (f.spec || strings.HasPrefix(f.fn.Name(), "vs_")) {
		f = f.parent
	}
	return f
}

func (x *Exec) intrinsic(fr *Frame, st *State, ins ssa.Instruction, cc *ssa.CallCommon, callee *ssa.Function, res ssa.Value) {
	vc := x.vc
	name := intrinsicName(callee)
	switch name {
	case "vs_assume":
		c := x.val(fr, st, cc.Args[0])
		if fr.spec {
			panic(engErr("vs_assume in specification code"))
		}
		st.reach = vc.name("r", and(st.reach, c))
	case "vs_assert":
		c := x.val(fr, st, cc.Args[0])
		if fr.spec {
			panic(engErr("vs_assert in specification code"))
		}
		x.oblige(fr, "assert", x.sourceText(ins), st, c, ins.Pos())
		st.reach = vc.name("r", and(st.reach, c))
	case "vs_cover":
		c := x.val(fr, st, cc.Args[0])
		x.oblige(fr, "cover", x.sourceText(ins), st, not(c), ins.Pos())
	case "vs_old":
		arg := cc.Args[0]
		shared := x.sharedOld(fr)
		switch {
		case shared == nil:
			fr.regs[res] = x.val(fr, st, arg)
		case x.inPass1(fr):
			v := x.val(fr, st, arg)
			shared[res] = v
			fr.regs[res] = v
		default:
			v, ok := shared[res]
			if !ok {
				panic(engErr("vs_old value not computed in pass 1 (%s)", fr.fn.Name()))
			}
			fr.regs[res] = v
		}
	case "vs_all", "vs_any":
		clo := x.closureOf(fr, st, cc.Args[0])
		if clo == nil {
			panic(engErr("%s needs a function literal", name))
		}
		fn := clo.fn
		if len(fn.Params) != 1 {
			panic(engErr("%s: closure must have one parameter", name))
		}
		p := fn.Params[0]
		bs := vc.sortOf(p.Type())
		bv := Term{boundVarName(fn, p), bs}
		vc.openBinder(bv.S)
		s2 := st.clone()
		s2.reach = tTrue
		vals := x.inlineRun(fr, s2, fn, clo, []Term{bv}, ins.Pos())
		body, pats := vc.closeBinder(vals[0])
		x.flushAxioms()
		// integer-typed bound variables range over their Go type
		var guard Term = tTrue
		if b, ok := underlying(p.Type()).(*types.Basic); ok && b.Info()&types.IsInteger != 0 {
			lo, hi := intRange(b)
			guard = and(le(bigIntLit(lo), bv), le(bv, bigIntLit(hi)))
		}
		q := "forall"
		if name == "vs_any" {
			q = "exists"
			body = and(guard, body)
		} else {
			body = implies(guard, body)
		}
		if len(pats) > 0 && usePatterns {
			var pb strings.Builder
			for _, p := range pats {
				pb.WriteString(" :pattern (" + p + ")")
			}
			fr.regs[res] = Term{fmt.Sprintf("(%s ((%s %s)) (! %s%s))", q, bv.S, bs, body.S, pb.String()), SBool}
		} else {
			fr.regs[res] = Term{fmt.Sprintf("(%s ((%s %s)) %s)", q, bv.S, bs, body.S), SBool}
		}
	case "vs_same":
		a, b := x.val(fr, st, cc.Args[0]), x.val(fr, st, cc.Args[1])
		fr.regs[res] = and(eq(sArr(a), sArr(b)), eq(sOff(a), sOff(b)), eq(sLen(a), sLen(b)))
	case "vs_eq":
		// structural equality of two values of the same type (for types Go's == rejects)
		fr.regs[res] = eq(x.val(fr, st, cc.Args[0]), x.val(fr, st, cc.Args[1]))
	case "vs_fresh":
		v := x.val(fr, st, cc.Args[0])
		old := x.specOld(fr)
		var topOld Term
		if old != nil {
			topOld = old.top
		} else {
			topOld = x.top0
		}
		// argument is an interface wrapping a pointer, map or slice
		mi, ok := cc.Args[0].(*ssa.MakeInterface)
		if !ok {
			panic(engErr("vs_fresh needs a direct pointer/slice/map argument"))
		}
		inner := x.val(fr, st, mi.X)
		_ = v
		switch underlying(mi.X.Type()).(type) {
		case *types.Slice:
			fr.regs[res] = or(eq(sArr(inner), intLit(0)), lt(topOld, sArr(inner)))
		default:
			fr.regs[res] = lt(topOld, inner)
		}
	case "vs_modifies":
		if x.modCollect == nil {
			panic(engErr("vs_modifies outside a modifies clause"))
		}
		mi, ok := cc.Args[0].(*ssa.MakeInterface)
		if !ok {
			panic(engErr("vs_modifies needs a direct address argument"))
		}
		if lv, ok := fr.lvals[mi.X]; ok {
			*x.modCollect = append(*x.modCollect, lv)
			break
		}
		v := x.val(fr, st, mi.X)
		switch u := underlying(mi.X.Type()).(type) {
		case *types.Pointer:
			*x.modCollect = append(*x.modCollect, x.ptrLVal(v, mi.X.Type()))
		case *types.Map:
			*x.modCollect = append(*x.modCollect, &LVal{ptr: v, typ: mi.X.Type()})
			_ = u
		case *types.Slice:
			// all elements of the backing array
			*x.modCollect = append(*x.modCollect, &LVal{ptr: sArr(v), rootT: u.Elem(), arr: true, typ: types.NewArray(u.Elem(), 0)})
		default:
			panic(engErr("vs_modifies: unsupported target type %s", mi.X.Type()))
		}
	case "vs_callOrder":
		nC, ok := cc.Args[0].(*ssa.Const)
		if !ok {
			panic(engErr("vs_callOrder: the callee name must be a constant"))
		}
		if rec := st.calls[constString(nC)]; rec != nil && rec.seq.S != "" {
			fr.regs[res] = ite(rec.called, rec.seq, intLit(0))
		} else {
			fr.regs[res] = intLit(0)
		}
	case "vs_called", "vs_callResult", "vs_callArg":
		// call history of the function under verification (evaluated in the state of the clause)
		nC, ok := cc.Args[0].(*ssa.Const)
		if !ok {
			panic(engErr("%s: the callee name must be a constant", name))
		}
		rec := st.calls[constString(nC)]
		if name == "vs_called" {
			if rec == nil {
				fr.regs[res] = tFalse
			} else {
				fr.regs[res] = rec.called
			}
			break
		}
		iC, ok := cc.Args[1].(*ssa.Const)
		if !ok {
			panic(engErr("%s: the index must be a constant", name))
		}
		i := int(iC.Int64())
		rt := callee.Signature.Results().At(0).Type()
		var vals []Term
		if rec != nil {
			vals = rec.results
			if name == "vs_callArg" {
				vals = rec.args
			}
		}
		if rec == nil || i >= len(vals) {
			fr.regs[res] = vc.zero(rt)
		} else {
			if vals[i].Sort != vc.sortOf(rt) {
				panic(engErr("%s(%q, %d): the recorded value has sort %s, the clause expects %s", name, constString(nC), i, vals[i].Sort, vc.sortOf(rt)))
			}
			fr.regs[res] = vals[i]
		}
	case "vs_done":
		rf := x.realFrame(fr)
		if rf == nil {
			panic(engErr("vs_done outside a function body"))
		}
		nC, ok := cc.Args[0].(*ssa.Const)
		if !ok {
			panic(engErr("vs_done: argument must be a constant"))
		}
		h := nthLoopHeader(rf.fn, int(nC.Int64()))
		if h == nil {
			panic(engErr("vs_done: %s has no loop %d", rf.fn.Name(), nC.Int64()))
		}
		cell, _ := rangeIndexOf(h)
		if cell == nil {
			panic(engErr("vs_done: loop %d of %s is not a range over a slice/array", nC.Int64(), rf.fn.Name()))
		}
		cur, ok := st.cells[cellKey{rf.id, cell}]
		if !ok {
			fr.regs[res] = intLit(0)
		} else {
			fr.regs[res] = add(cur, intLit(1))
		}
	case "vs_pos":
		// vs_pos(n): byte offset reached by the n-th range-over-string statement of the enclosing function
		rf := x.realFrame(fr)
		if rf == nil {
			panic(engErr("vs_pos outside a function body"))
		}
		nC, ok := cc.Args[0].(*ssa.Const)
		if !ok {
			panic(engErr("vs_pos: argument must be a constant"))
		}
		rng := nthStringRange(rf.fn, int(nC.Int64()))
		if rng == nil {
			panic(engErr("vs_pos: %s has no range-over-string statement %d", rf.fn.Name(), nC.Int64()))
		}
		if cur, ok := st.iters[cellKey2{rf.id, rng}]; ok {
			fr.regs[res] = cur
		} else {
			fr.regs[res] = intLit(0)
		}
	case "vs_ranged":
		// vs_ranged[M](n): the map value the n-th map range statement of the enclosing function iterates over
		rf := x.realFrame(fr)
		if rf == nil {
			panic(engErr("vs_ranged outside a function body"))
		}
		nC, ok := cc.Args[0].(*ssa.Const)
		if !ok {
			panic(engErr("vs_ranged: argument must be a constant"))
		}
		rng := nthRange(rf.fn, int(nC.Int64()))
		if rng == nil {
			panic(engErr("vs_ranged: %s has no map range statement %d", rf.fn.Name(), nC.Int64()))
		}
		if m, ok := rf.regs[rng]; ok {
			fr.regs[res] = m
		} else {
			fr.regs[res] = intLit(0)
		}
	case "vs_visited":
		// vs_visited(n, k): key k was already produced by the n-th range statement of the enclosing function
		rf := x.realFrame(fr)
		if rf == nil {
			panic(engErr("vs_visited outside a function body"))
		}
		nC, ok := cc.Args[0].(*ssa.Const)
		if !ok {
			panic(engErr("vs_visited: first argument must be a constant"))
		}
		n := int(nC.Int64())
		rng := nthRange(rf.fn, n)
		if rng == nil {
			panic(engErr("vs_visited: %s has no range statement %d", rf.fn.Name(), n))
		}
		mi, ok := cc.Args[1].(*ssa.MakeInterface)
		if !ok {
			panic(engErr("vs_visited: key must be passed directly"))
		}
		k := x.val(fr, st, mi.X)
		cur, ok := st.iters[cellKey2{rf.id, rng}]
		if !ok && x.inPass1(fr) {
			// first pass of an old()-using clause (evaluated in the entry state only to record the
			// old values): an unknown truth value, so that every sub-expression is visited
			nm := "pass1_" + mangle(string(k.Sort))
			vc.declareFun(nm, []Sort{k.Sort}, SBool)
			fr.regs[res] = app(SBool, nm, k)
		} else if !ok {
			// before the range statement started: nothing visited
			fr.regs[res] = tFalse
		} else {
			fr.regs[res] = sel(cur, k, SBool)
		}
	default:
		panic(engErr("intrinsic %s not implemented", name))
	}
}

func nthStringRange(fn *ssa.Function, n int) *ssa.Range {
	var rs []*ssa.Range
	for _, b := range fn.Blocks {
		for _, ins := range b.Instrs {
			if r, ok := ins.(*ssa.Range); ok {
				if _, isStr := underlying(r.X.Type()).(*types.Basic); isStr {
					rs = append(rs, r)
				}
			}
		}
	}
	sort.Slice(rs, func(i, j int) bool { return rs[i].Pos() < rs[j].Pos() })
	if n >= 1 && n <= len(rs) {
		return rs[n-1]
	}
	return nil
}

func nthRange(fn *ssa.Function, n int) *ssa.Range {
	var rs []*ssa.Range
	for _, b := range fn.Blocks {
		for _, ins := range b.Instrs {
			if r, ok := ins.(*ssa.Range); ok {
				if _, isMap := underlying(r.X.Type()).(*types.Map); isMap {
					rs = append(rs, r)
				}
			}
		}
	}
	// source order
	for i := 0; i < len(rs); i++ {
		for j := i + 1; j < len(rs); j++ {
			if rs[j].Pos() < rs[i].Pos() {
				rs[i], rs[j] = rs[j], rs[i]
			}
		}
	}
	if n >= 1 && n <= len(rs) {
		return rs[n-1]
	}
	return nil
}

func (x *Exec) sharedOld(fr *Frame) map[ssa.Value]Term {
	for f := fr; f != nil; f = f.parent {
		if f.oldRegs != nil {
			return f.oldRegs
		}
		if !f.spec {
			break
		}
	}
	return nil
}

func (x *Exec) inPass1(fr *Frame) bool {
	for f := fr; f != nil; f = f.parent {
		if f.oldRegs != nil {
			return f.pass1
		}
	}
	return false
}

func (x *Exec) closureOf(fr *Frame, st *State, v ssa.Value) *closure {
	if mc, ok := v.(*ssa.MakeClosure); ok {
		return fr.clos[mc]
	}
	if f, ok := v.(*ssa.Function); ok {
		return &closure{fn: f}
	}
	t := x.val(fr, st, v)
	return x.closByTerm()[t.S]
}

func (x *Exec) sourceText(ins ssa.Instruction) string {
	p := x.eng.Fset.Position(ins.Pos())
	if !p.IsValid() {
		return ""
	}
	src := x.eng.source(p.Filename)
	if src == nil {
		return ""
	}
	lines := strings.Split(string(src), "\n")
	if p.Line-1 < len(lines) {
		s := strings.TrimSpace(lines[p.Line-1])
		if len(s) > 90 {
			s = s[:90]
		}
		return s
	}
	return ""
}

// ---------------------------------------------------------------------------
// builtins

func (x *Exec) builtin(fr *Frame, st *State, ins ssa.Instruction, cc *ssa.CallCommon, b *ssa.Builtin, res ssa.Value) {
	vc := x.vc
	switch b.Name() {
	case "len":
		a := x.val(fr, st, cc.Args[0])
		switch u := underlying(cc.Args[0].Type()).(type) {
		case *types.Slice:
			fr.regs[res] = sLen(a)
		case *types.Basic:
			fr.regs[res] = app(SInt, "str.len", a)
		case *types.Map:
			fr.regs[res] = vc.name("len", x.mapLen(st, u, a))
			if vc.noName == 0 {
				vc.assert(le(intLit(0), fr.regs[res]))
			}
		case *types.Array:
			fr.regs[res] = intLit(u.Len())
		case *types.Pointer:
			at, _ := isArrayType(u.Elem())
			fr.regs[res] = intLit(at.Len())
		default:
			panic(engErr("len of %s", cc.Args[0].Type()))
		}
	case "cap":
		a := x.val(fr, st, cc.Args[0])
		switch underlying(cc.Args[0].Type()).(type) {
		case *types.Slice:
			fr.regs[res] = sCap(a)
		default:
			panic(engErr("cap of %s", cc.Args[0].Type()))
		}
	case "append":
		fr.regs[res] = x.appendOp(fr, st, cc)
	case "copy":
		x.copyOp(fr, st, cc, res)
	case "delete":
		mt := underlying(cc.Args[0].Type()).(*types.Map)
		m := x.val(fr, st, cc.Args[0])
		k := x.val(fr, st, cc.Args[1])
		if fr.spec {
			panic(engErr("ghost code deletes from a map"))
		}
		x.frameCheckRef(fr, st, m, "delete", ins.Pos())
		d, _, l := vc.mapHeaps(mt)
		ks := vc.sortOf(mt.Key())
		dom := sel(x.heap(st, d), m, arraySort(ks, SBool))
		ln := sel(x.heap(st, l), m, SInt)
		had := vc.name("had", and(not(eq(m, intLit(0))), sel(dom, k, SBool)))
		x.setHeap(st, l, store(x.heap(st, l), m, ite(had, sub(ln, intLit(1)), ln)))
		x.setHeap(st, d, store(x.heap(st, d), m, store(dom, k, tFalse)))
	case "print", "println":
	case "ssa:deferstack":
		fr.regs[res] = intLit(0)
	case "ssa:wrapnilchk":
		v := x.val(fr, st, cc.Args[0])
		x.safety(fr, "nilderef", "wrapnilchk", st, not(eq(v, intLit(0))), ins.Pos())
		fr.regs[res] = v
	case "min", "max":
		a := x.val(fr, st, cc.Args[0])
		for _, o := range cc.Args[1:] {
			bb := x.val(fr, st, o)
			if b.Name() == "min" {
				a = ite(app(SBool, "<=", a, bb), a, bb)
			} else {
				a = ite(app(SBool, ">=", a, bb), a, bb)
			}
		}
		fr.regs[res] = a
	case "recover":
		fr.regs[res] = Term{"(mk-iface 0 0)", SIface}
	default:
		panic(engErr("builtin %s not supported", b.Name()))
	}
}

// sliceShape remembers constant-length literal slices (varargs arrays).
type sliceShape struct {
	n   int64
	arr Term
}

func (x *Exec) appendOp(fr *Frame, st *State, cc *ssa.CallCommon) Term {
	vc := x.vc
	s := x.val(fr, st, cc.Args[0])
	st0 := underlying(cc.Args[0].Type()).(*types.Slice)
	et := st0.Elem()
	es := vc.sortOf(et)
	h := vc.arrHeap(et)
	as := arraySort(SInt, es)
	if vc.noName > 0 {
		panic(engErr("append inside quantifier body"))
	}
	const unroll = 8
	sl := vc.name("al", sLen(s))
	oldArr := vc.name("oa", sel(x.heap(st, h), sArr(s), as))
	// base: the first len(s) elements of s, re-based at offset 0. With offset 0 it is the
	// old array itself (cells beyond len(s) are then unspecified rather than zero: A3).
	off := vc.name("aoff", sOff(s))
	var base Term
	if off.S == "0" {
		base = oldArr
	} else {
		bf := vc.fresh("abase", as)
		vc.assert(implies(not(eq(off, intLit(0))), Term{fmt.Sprintf("(forall ((i Int)) (! (=> (and (<= 0 i) (< i %s)) (= (select %s i) (select %s (+ %s i)))) :pattern ((select %s i))))", sl.S, bf.S, oldArr.S, off.S, bf.S), SBool}))
		base = vc.name("abase", ite(eq(off, intLit(0)), oldArr, bf))
	}
	var newArr Term
	var addLen Term
	// second operand
	if bt, ok := underlying(cc.Args[1].Type()).(*types.Basic); ok && bt.Info()&types.IsString != 0 {
		// append([]byte, string...)
		t := x.val(fr, st, cc.Args[1])
		addLen = app(SInt, "str.len", t)
		na := vc.fresh("aarr", as)
		vc.assert(Term{fmt.Sprintf("(forall ((i Int)) (! (=> (and (<= 0 i) (< i %s)) (= (select %s i) (select %s i))) :pattern ((select %s i))))", sl.S, na.S, base.S, na.S), SBool})
		vc.assert(Term{fmt.Sprintf("(forall ((j Int)) (=> (and (<= 0 j) (< j %s)) (= (select %s (+ %s j)) (str.to_code (str.at %s j)))))", addLen.S, na.S, sl.S, t.S), SBool})
		newArr = na
	} else {
		t := x.val(fr, st, cc.Args[1])
		tArr := vc.name("ta", sel(x.heap(st, h), sArr(t), as))
		toff := vc.name("toff", sOff(t))
		if n, ok := x.constLen(fr, cc.Args[1]); ok && n <= unroll {
			addLen = intLit(n)
			newArr = base
			for j := int64(0); j < n; j++ {
				newArr = store(newArr, add(sl, intLit(j)), sel(tArr, add(toff, intLit(j)), es))
			}
			newArr = vc.name("na", newArr)
		} else {
			addLen = vc.name("tl", sLen(t))
			// explicit copy of the first `unroll` elements (cells beyond the new length are unspecified)
			ex := base
			for j := int64(0); j < unroll; j++ {
				ex = vc.name("na", store(ex, add(sl, intLit(j)), sel(tArr, add(toff, intLit(j)), es)))
			}
			na := vc.fresh("aarr", as)
			big := lt(intLit(unroll), addLen)
			vc.assert(implies(big, Term{fmt.Sprintf("(forall ((i Int)) (! (=> (and (<= 0 i) (< i %s)) (= (select %s i) (select %s i))) :pattern ((select %s i))))", sl.S, na.S, base.S, na.S), SBool}))
			vc.assert(implies(big, Term{fmt.Sprintf("(forall ((k Int)) (! (=> (and (<= %s k) (< k (+ %s %s))) (= (select %s k) (select %s (+ %s (- k %s))))) :pattern ((select %s k))))", sl.S, sl.S, addLen.S, na.S, tArr.S, toff.S, sl.S, na.S), SBool}))
			newArr = vc.name("na", ite(big, na, ex))
		}
	}
	nl := vc.name("nl", add(sl, addLen))
	// appending nothing to a nil slice yields nil; otherwise a fresh array (A3)
	ref := vc.fresh("ref", SInt)
	vc.assert(eq(ref, add(st.top, intLit(1))))
	st.top = ref
	st.written["top"] = true
	x.setHeap(st, h, store(x.heap(st, h), ref, newArr))
	cp := vc.fresh("cap", SInt)
	vc.assert(and(le(nl, cp), le(cp, bigIntLit("9223372036854775807"))))
	isNilRes := and(eq(sArr(s), intLit(0)), eq(addLen, intLit(0)))
	r := ite(isNilRes, Term{"(mk-slice 0 0 0 0)", SSlice}, mkSlice(ref, intLit(0), nl, cp))
	return vc.name("app", r)
}

// constLen recognises the `slice (new [N]T)[:]` pattern of variadic calls.
func (x *Exec) constLen(fr *Frame, v ssa.Value) (int64, bool) {
	sl, ok := v.(*ssa.Slice)
	if !ok || sl.Low != nil || sl.High != nil || sl.Max != nil {
		return 0, false
	}
	pt, ok := underlying(sl.X.Type()).(*types.Pointer)
	if !ok {
		return 0, false
	}
	at, ok := isArrayType(pt.Elem())
	if !ok {
		return 0, false
	}
	return at.Len(), true
}

func (x *Exec) copyOp(fr *Frame, st *State, cc *ssa.CallCommon, res ssa.Value) {
	vc := x.vc
	if fr.spec {
		panic(engErr("ghost code calls copy"))
	}
	dst := x.val(fr, st, cc.Args[0])
	dt := underlying(cc.Args[0].Type()).(*types.Slice)
	et := dt.Elem()
	es := vc.sortOf(et)
	h := vc.arrHeap(et)
	as := arraySort(SInt, es)
	var n Term
	oldD := vc.name("cd", sel(x.heap(st, h), sArr(dst), as))
	na := vc.fresh("carr", as)
	if bt, ok := underlying(cc.Args[1].Type()).(*types.Basic); ok && bt.Info()&types.IsString != 0 {
		src := x.val(fr, st, cc.Args[1])
		sl := app(SInt, "str.len", src)
		n = vc.name("cn", ite(le(sLen(dst), sl), sLen(dst), sl))
		vc.assert(Term{fmt.Sprintf("(forall ((i Int)) (= (select %s i) (ite (and (<= %s i) (< i (+ %s %s))) (str.to_code (str.at %s (- i %s))) (select %s i))))", na.S, sOff(dst).S, sOff(dst).S, n.S, src.S, sOff(dst).S, oldD.S), SBool})
	} else {
		src := x.val(fr, st, cc.Args[1])
		n = vc.name("cn", ite(le(sLen(dst), sLen(src)), sLen(dst), sLen(src)))
		srcA := vc.name("cs", sel(x.heap(st, h), sArr(src), as))
		vc.assert(Term{fmt.Sprintf("(forall ((i Int)) (= (select %s i) (ite (and (<= %s i) (< i (+ %s %s))) (select %s (+ %s (- i %s))) (select %s i))))", na.S, sOff(dst).S, sOff(dst).S, n.S, srcA.S, sOff(src).S, sOff(dst).S, oldD.S), SBool})
	}
	x.frameCheckLVal(fr, st, &LVal{ptr: sArr(dst), rootT: et, arr: true, typ: et}, "copy", cc.Pos())
	x.setHeap(st, h, store(x.heap(st, h), sArr(dst), na))
	if res != nil {
		fr.regs[res] = n
	}
}

// nthLoopHeader returns the header block of the n-th loop (source order).
func nthLoopHeader(fn *ssa.Function, n int) *ssa.BasicBlock {
	cfg := cfgOf(fn)
	for b := range cfg.headers {
		if loopOrdinal(fn, b) == n {
			return b
		}
	}
	return nil
}

// rangeIndexOf recognises the lowering of `for i, v := range slice`: the header
// block "rangeindex.loop" increments a hidden cell and compares it with the
// pre-evaluated length. Returns the cell and the length value.
func rangeIndexOf(h *ssa.BasicBlock) (*ssa.Alloc, ssa.Value) {
	if h.Comment != "rangeindex.loop" {
		return nil, nil
	}
	var cell *ssa.Alloc
	var ln ssa.Value
	for _, ins := range h.Instrs {
		switch v := ins.(type) {
		case *ssa.UnOp:
			if a, ok := v.X.(*ssa.Alloc); ok && a.Comment == "rangeindex" {
				cell = a
			}
		case *ssa.BinOp:
			ln = v.Y
		}
	}
	return cell, ln
}

// usePatterns: attach explicit instantiation patterns to vs_all / vs_any quantifiers.
var usePatterns = os.Getenv("GOCV_PATTERNS") == "1"
