package main

// preludeSrc is appended (after a package clause) to every target package as
// ghost code. Functions with bodies are executable (used by replay too);
// the others are engine intrinsics.
const preludeSrc = `
// vs_assume restricts the paths considered (lemma hypotheses only).
func vs_assume(b bool) { if !b { panic("vs_assume violated") } }
// vs_assert is an obligation.
func vs_assert(b bool) { if !b { panic("vs_assert violated") } }
// vs_cover marks a point that must be reachable.
func vs_cover(b bool) {}
// vs_old(e) is e evaluated in the pre-state.
func vs_old[T any](x T) T { return x }
// vs_all / vs_any: quantifiers over all values of T.
func vs_all[T any](f func(T) bool) bool { return true }
func vs_any[T any](f func(T) bool) bool { return true }
// vs_fresh(p): the object p refers to was allocated after the pre-state.
func vs_fresh(p any) bool { return true }
func vs_modifies(p any) {}
func vs_visited(n int, k any) bool { return false }
// vs_ranged[M](n): the map the n-th map range statement of the enclosing function iterates over.
func vs_ranged[M any](n int) M { var z M; return z }
// vs_done(n): number of completed iterations of the n-th loop (a range over a slice) of the enclosing function.
func vs_done(n int) int { return 0 }
// vs_pos(n): byte offset reached by the n-th range-over-string statement of the enclosing function.
func vs_pos(n int) int { return 0 }
// vs_same(a, b): the two slices are the same view (same array, offset and length).
func vs_same[T any](a, b []T) bool { return len(a) == len(b) && (len(a) == 0 || &a[0] == &b[0]) }
// call history of the function a clause belongs to: whether it called callee (by name), and the
// arguments / results of its last call to it.
func vs_called(callee string) bool { return false }
func vs_callResult[T any](callee string, i int) T { var z T; return z }
func vs_callArg[T any](callee string, i int) T { var z T; return z }
// vs_callOrder(callee): position of the last call to callee in the function's call sequence (0: never called).
func vs_callOrder(callee string) int { return 0 }
// vs_eq(a, b): a and b are the same value (same scalars, same references) - for struct types that
// Go's == does not accept.
func vs_eq[T any](a, b T) bool { return true }
// vs_has(m, k): k is a key of m.
func vs_has[K comparable, V any](m map[K]V, k K) bool { _, ok := m[k]; return ok }
`
