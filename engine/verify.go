package main

import (
	"fmt"
	"go/token"
	"go/types"
	"os"
	"sort"
	"strings"

	"golang.org/x/tools/go/ssa"
)

func (e *Engine) source(filename string) []byte {
	if e.srcCache == nil {
		e.srcCache = map[string][]byte{}
	}
	if b, ok := e.srcCache[filename]; ok {
		return b
	}
	b, err := os.ReadFile(filename)
	if err != nil {
		// ghost files generated in memory
		for _, tp := range e.Targets {
			for name, src := range tp.GhostSrc {
				if strings.HasSuffix(filename, name) {
					b = src
				}
			}
		}
	}
	e.srcCache[filename] = b
	return b
}

// UnitResult is the outcome of generating VCs for one unit.
type UnitResult struct {
	Unit     string
	Kind     string // "function" | "lemma" | "init"
	Props    []string
	Obls     []*Obligation
	Err      string // out-of-fragment / engine error
	Inlined  []string
	Havocked []string
	Pure     []string
	Lib      []string
	Notes    []string
	Instrs   int
}

func (x *Exec) initialState() *State {
	st := &State{reach: tTrue, cells: map[cellKey]Term{}, globals: map[*ssa.Global]Term{}, heaps: map[string]Term{}, iters: map[cellKey2]Term{}, written: map[string]bool{}}
	x.top0 = x.vc.fresh("top0", SInt)
	x.vc.assert(le(intLit(0), x.top0))
	st.top = x.top0
	return st
}

func (x *Exec) paramTerms(fn *ssa.Function, st *State) []Term {
	var ps []Term
	for _, p := range fn.Params {
		t := x.vc.fresh("p_"+mangle(p.Name()), x.vc.sortOf(p.Type()))
		x.wfDeep = true
		x.wf(st, t, p.Type())
		x.wfDeep = false
		if _, isIface := underlying(p.Type()).(*types.Interface); isIface {
			// values boxed in an interface parameter refer to objects that exist at entry
			for _, bt := range x.eng.boxedTypes() {
				switch underlying(bt).(type) {
				case *types.Struct, *types.Slice:
					saveU := x.refsOldUnknown
					x.refsOldUnknown = tTrue
					x.vc.assert(implies(eq(iType(t), x.vc.typeID(bt)), x.refsOld(x.vc.unbox(bt, iVal(t)), bt, 0)))
					x.refsOldUnknown = saveU
				}
			}
		}
		switch underlying(p.Type()).(type) {
		case *types.Pointer, *types.Map:
			x.vc.assert(le(t, st.top))
		case *types.Slice:
			x.vc.assert(le(sArr(t), st.top))
		}
		ps = append(ps, t)
	}
	return ps
}

// verifyContract generates the obligations of a function under contract.
func (e *Engine) verifyContract(c *Contract) (res *UnitResult) {
	unit := shortFn(c.Fn)
	res = &UnitResult{Unit: unit, Kind: "function", Props: c.Props}
	x := newExec(e, unit, c.Props)
	defer func() {
		if r := recover(); r != nil {
			if ee, ok := r.(*engError); ok {
				res.Err = ee.msg
			} else {
				panic(r)
			}
		}
		x.finish(res)
	}()
	fn := c.Fn
	e.ensureBuilt(fn)
	for _, b := range fn.Blocks {
		res.Instrs += len(b.Instrs)
	}
	st := x.initialState()
	fr := x.newFrame(fn, nil)
	fr.contract = c
	fr.safety = c.Safety
	x.root = fr
	x.rootParams = x.paramTerms(fn, st)
	for i, p := range fn.Params {
		fr.regs[p] = x.rootParams[i]
	}
	x.assumeGlobalInvariants(fr, st)
	x.assumePureAxioms(fr, st)
	// requires
	var pres []Term
	for _, cl := range c.Requires {
		t := x.evalGhost(fr, x.ghostOf(c, cl.Ghost), x.rootParams, nil, st, nil)
		pres = append(pres, t)
	}
	pre := and(pres...)
	pre = x.vc.name("pre", pre)
	x.vc.assert(pre)
	// vacuity guard: the precondition is satisfiable
	if len(c.Requires) > 0 && !c.Trusted {
		x.oblige(fr, "cover", "requires satisfiable", st, tFalse, fn.Pos())
	}
	if c.HasMod {
		x.hasMod = true
		x.modTargets = x.evalModifies(fr, c, x.rootParams, st)
	}
	x.stack = append(x.stack, fn)
	if c.Trusted {
		res.Notes = append(res.Notes, "TRUSTED: body not verified")
		return
	}
	exit, _ := x.runFunction(fr, st)
	// vacuity guard: some return is reachable under everything assumed along the way (an
	// individual return may be legitimately dead, e.g. an error path a callee's contract excludes)
	x.oblige(fr, "cover", "some return reachable", exit, tFalse, fn.Pos())
	return
}

// atReturn is called at each Return of the root function.
func (x *Exec) atReturn(fr *Frame, st *State, vals []Term, pos token.Pos) {
	c := fr.contract
	if c == nil {
		return
	}
	args := append(append([]Term{}, x.rootParams...), vals...)
	for i, cl := range c.Ensures {
		if skipClause(cl, x.eng) {
			continue // clause belongs to another property's check, or to the thorough tier only
		}
		t := x.evalGhost(fr, x.ghostOf(c, cl.Ghost), args, nil, st, fr.entry)
		x.curGhost = cl.Ghost
		x.oblige(fr, "ensures", fmt.Sprintf("post %d: %s", i+1, cl.Orig), st, t, pos)
		x.curGhost = ""
	}
}

// verifyLemma generates the obligations of a lemma harness (ghost function vs_lemma_*).
func (e *Engine) verifyLemma(fn *ssa.Function, props []string) (res *UnitResult) {
	unit := shortFn(fn)
	res = &UnitResult{Unit: unit, Kind: "lemma", Props: props}
	x := newExec(e, unit, props)
	defer func() {
		if r := recover(); r != nil {
			if ee, ok := r.(*engError); ok {
				res.Err = ee.msg
			} else {
				panic(r)
			}
		}
		x.finish(res)
	}()
	e.ensureBuilt(fn)
	st := x.initialState()
	fr := x.newFrame(fn, nil)
	fr.safety = false
	x.root = fr
	x.rootParams = x.paramTerms(fn, st)
	for i, p := range fn.Params {
		fr.regs[p] = x.rootParams[i]
	}
	x.assumeGlobalInvariants(fr, st)
	x.assumePureAxioms(fr, st)
	x.stack = append(x.stack, fn)
	x.lemmaMode = true
	exit, _ := x.runFunction(fr, st)
	// vacuity guard: the end of the lemma is reachable (hypotheses consistent)
	x.oblige(fr, "cover", "lemma hypotheses satisfiable", exit, tFalse, fn.Pos())
	return
}

func (x *Exec) finish(res *UnitResult) {
	res.Obls = x.obls
	res.Inlined = sortedKeys(x.inlined)
	res.Havocked = sortedKeys(x.havocked)
	res.Pure = sortedKeys(x.pureUsed)
	res.Lib = sortedKeys(x.vc.libUsed)
	res.Notes = append(res.Notes, x.vc.notes...)
	delete(closTables, x)
}

// ---------------------------------------------------------------------------
// global invariants: ghost functions named vs_globalinv_* (no parameters,
// result bool). Proved at the end of the package initialiser, assumed at the
// entry of every unit of that package. Soundness needs the globals they read
// not to be written outside init: checked syntactically (writersOutsideInit).

func (e *Engine) globalInvariants(pkg *ssa.Package) []*ssa.Function {
	var res []*ssa.Function
	for name, m := range pkg.Members {
		if fn, ok := m.(*ssa.Function); ok && strings.HasPrefix(name, "vs_globalinv_") {
			res = append(res, fn)
		}
	}
	sort.Slice(res, func(i, j int) bool { return res[i].Name() < res[j].Name() })
	return res
}

// globalsReached: package-level variables a function can read, through static callees,
// closures and the ghost functions of the contracts it uses.
func (e *Engine) globalsReached(fn *ssa.Function) map[*ssa.Global]bool {
	if e.globCache == nil {
		e.globCache = map[*ssa.Function]map[*ssa.Global]bool{}
	}
	if m, ok := e.globCache[fn]; ok {
		return m
	}
	res := map[*ssa.Global]bool{}
	seen := map[*ssa.Function]bool{}
	var visit func(f *ssa.Function)
	visit = func(f *ssa.Function) {
		if f == nil || seen[f] {
			return
		}
		seen[f] = true
		if f.Pkg != nil {
			p := f.Pkg.Pkg.Path()
			if !strings.HasPrefix(p, modPath) && !strings.HasPrefix(p, "github.com/go-openapi/spec") {
				return
			}
		}
		e.ensureBuilt(f)
		if c := e.Contracts[f]; c != nil {
			tp := e.Targets[c.PkgPath]
			for _, cl := range append(append([]*Clause{}, c.Requires...), c.Ensures...) {
				if tp != nil {
					visit(tp.SSA.Func(cl.Ghost))
				}
			}
			for _, ls := range c.Loops {
				for _, cl := range append(append([]*Clause{}, ls.Invariants...), ls.Steps...) {
					if tp != nil {
						visit(tp.SSA.Func(cl.Ghost))
					}
				}
			}
		}
		for _, b := range f.Blocks {
			for _, ins := range b.Instrs {
				for _, op := range ins.Operands(nil) {
					switch v := (*op).(type) {
					case *ssa.Global:
						res[v] = true
					case *ssa.Function:
						visit(v)
					}
				}
			}
		}
		for _, af := range f.AnonFuncs {
			visit(af)
		}
	}
	visit(fn)
	e.globCache[fn] = res
	if e.reachCache == nil {
		e.reachCache = map[*ssa.Function]map[*ssa.Function]bool{}
	}
	e.reachCache[fn] = seen
	return res
}

// funcsReached: functions (real and ghost) reachable from fn; see globalsReached.
func (e *Engine) funcsReached(fn *ssa.Function) map[*ssa.Function]bool {
	e.globalsReached(fn)
	return e.reachCache[fn]
}

func (x *Exec) assumeGlobalInvariants(fr *Frame, st *State) {
	if fr.fn.Pkg == nil {
		return
	}
	mine := x.eng.globalsReached(fr.fn)
	for _, gi := range x.eng.globalInvariants(fr.fn.Pkg) {
		relevant := false
		for g := range x.eng.globalsReached(gi) {
			if mine[g] {
				relevant = true
			}
		}
		if !relevant {
			continue // the unit cannot read any variable the invariant speaks about
		}
		t := x.evalGhost(fr, gi, nil, nil, st, nil)
		x.vc.assert(t)
		x.vc.assumed["global invariant "+gi.Name()+" (proved on init)"] = true
	}
}

// verifyInit proves the global invariants of a package at the end of its initialiser.
func (e *Engine) verifyInit(tp *TargetPkg, props []string) (res *UnitResult) {
	initFn := tp.SSA.Func("init")
	unit := shortFn(initFn)
	res = &UnitResult{Unit: unit, Kind: "init", Props: props}
	gis := e.globalInvariants(tp.SSA)
	if len(gis) == 0 {
		return nil
	}
	x := newExec(e, unit, props)
	defer func() {
		if r := recover(); r != nil {
			if ee, ok := r.(*engError); ok {
				res.Err = ee.msg
			} else {
				panic(r)
			}
		}
		x.finish(res)
	}()
	st := x.initialState()
	fr := x.newFrame(initFn, nil)
	x.root = fr
	x.initMode = true
	x.stack = append(x.stack, initFn)
	// globals start zeroed
	for _, m := range tp.SSA.Members {
		if g, ok := m.(*ssa.Global); ok {
			st.globals[g] = x.vc.zero(derefType(g.Type()))
		}
	}
	exit, _ := x.runFunction(fr, st)
	for _, gi := range gis {
		t := x.evalGhost(fr, gi, nil, nil, exit, nil)
		x.oblige(fr, "globalinv", gi.Name(), exit, t, gi.Pos())
	}
	// writers outside init
	for _, w := range e.writersOutsideInit(tp, gis) {
		x.oblige(fr, "globalinv-frame", w, exit, tFalse, initFn.Pos())
	}
	return
}

// writersOutsideInit lists stores to globals read by the invariants that occur outside init.
func (e *Engine) writersOutsideInit(tp *TargetPkg, gis []*ssa.Function) []string {
	read := map[*ssa.Global]bool{}
	var scan func(fn *ssa.Function, seen map[*ssa.Function]bool)
	scan = func(fn *ssa.Function, seen map[*ssa.Function]bool) {
		if seen[fn] {
			return
		}
		seen[fn] = true
		for _, b := range fn.Blocks {
			for _, ins := range b.Instrs {
				for _, op := range ins.Operands(nil) {
					if g, ok := (*op).(*ssa.Global); ok {
						read[g] = true
					}
					if f, ok := (*op).(*ssa.Function); ok && strings.HasPrefix(f.Name(), "vs_") {
						scan(f, seen)
					}
				}
				if mc, ok := ins.(*ssa.MakeClosure); ok {
					scan(mc.Fn.(*ssa.Function), seen)
				}
			}
		}
	}
	for _, gi := range gis {
		scan(gi, map[*ssa.Function]bool{})
	}
	var res []string
	var walk func(fn *ssa.Function)
	walk = func(fn *ssa.Function) {
		if strings.HasPrefix(fn.Name(), "init") || strings.HasPrefix(fn.Name(), "vs_") {
			return
		}
		for _, b := range fn.Blocks {
			for _, ins := range b.Instrs {
				switch s := ins.(type) {
				case *ssa.Store:
					if g := rootGlobal(s.Addr); g != nil && read[g] {
						res = append(res, fmt.Sprintf("%s writes global %s", fn.Name(), g.Name()))
					}
				case *ssa.MapUpdate:
					if g := loadedGlobal(s.Map); g != nil && read[g] {
						res = append(res, fmt.Sprintf("%s updates map global %s", fn.Name(), g.Name()))
					}
				case ssa.CallInstruction:
					if bi, ok := s.Common().Value.(*ssa.Builtin); ok && bi.Name() == "delete" {
						if g := loadedGlobal(s.Common().Args[0]); g != nil && read[g] {
							res = append(res, fmt.Sprintf("%s deletes from map global %s", fn.Name(), g.Name()))
						}
					}
				}
			}
		}
		for _, af := range fn.AnonFuncs {
			walk(af)
		}
	}
	for _, m := range tp.SSA.Members {
		switch f := m.(type) {
		case *ssa.Function:
			walk(f)
		case *ssa.Type:
			for _, t := range []types.Type{f.Type(), types.NewPointer(f.Type())} {
				ms := e.Prog.MethodSets.MethodSet(t)
				for i := 0; i < ms.Len(); i++ {
					if mf := e.Prog.MethodValue(ms.At(i)); mf != nil && mf.Pkg == tp.SSA {
						walk(mf)
					}
				}
			}
		}
	}
	sort.Strings(res)
	return res
}

func rootGlobal(v ssa.Value) *ssa.Global {
	for i := 0; i < 8; i++ {
		switch a := v.(type) {
		case *ssa.Global:
			return a
		case *ssa.FieldAddr:
			v = a.X
		case *ssa.IndexAddr:
			v = a.X
		default:
			return nil
		}
	}
	return nil
}

func loadedGlobal(v ssa.Value) *ssa.Global {
	if u, ok := v.(*ssa.UnOp); ok && u.Op == token.MUL {
		if g, ok := u.X.(*ssa.Global); ok {
			return g
		}
	}
	return nil
}

func anyCommon(a, b []string) bool {
	for _, x := range a {
		for _, y := range b {
			if x == y {
				return true
			}
		}
	}
	return false
}

// assumePureAxioms asserts, for every pure function under contract whose parameters carry
// no references, the universally quantified form of its postconditions over the function's
// uninterpreted symbol:  forall args. ensures(args, F(args)),  with F(args) as the pattern.
// (Inside quantifier bodies calls to such functions are bare applications of that symbol;
// this is what makes their contracts usable there.) Sound because the contract is verified
// (or listed as trusted) and the function reads nothing but its arguments and package-level
// tables covered by global invariants.
func (x *Exec) assumePureAxioms(fr *Frame, st *State) {
	if fr.fn.Pkg == nil {
		return
	}
	tp := x.eng.Targets[fr.fn.Pkg.Pkg.Path()]
	if tp == nil {
		return
	}
	for _, k := range sortedKeys(tp.Contracts) {
		c := tp.Contracts[k]
		if !c.Pure || len(c.Ensures) == 0 || c.Fn == fr.fn {
			continue
		}
		if !x.eng.funcsReached(fr.fn)[c.Fn] {
			continue // the unit cannot call it, not even from its specifications
		}
		sig := c.Fn.Signature
		if sig.Results().Len() != 1 || !scalarParams(sig) {
			continue
		}
		name := "ax!" + mangle(shortFn(c.Fn))
		x.vc.lets = map[string][]letDef{}
		x.ghostDepth++ // keep the let-definitions of this binder across the nested evaluations
		x.vc.openBinder(name)
		var bvs []Term
		var decl []string
		for i, p := range c.Fn.Params {
			bv := Term{fmt.Sprintf("%s!%d", name, i), x.vc.sortOf(p.Type())}
			bvs = append(bvs, bv)
			decl = append(decl, fmt.Sprintf("(%s %s)", bv.S, bv.Sort))
		}
		res := x.pureResult(c, 0, bvs, sig.Results().At(0).Type(), st)
		var pres, posts []Term
		func() {
			defer func() {
				if r := recover(); r != nil {
					if _, ok := r.(*engError); ok {
						posts = nil // clause not expressible inside a binder: skip the axiom
						return
					}
					panic(r)
				}
			}()
			for _, cl := range c.Requires {
				pres = append(pres, x.evalGhost(fr, x.ghostOf(c, cl.Ghost), bvs, nil, st, nil))
			}
			for _, cl := range c.Ensures {
				if cl.Known {
					continue
				}
				posts = append(posts, x.evalGhost(fr, x.ghostOf(c, cl.Ghost), append(append([]Term{}, bvs...), res), nil, st, st))
			}
		}()
		body, _ := x.vc.closeBinder(implies(and(pres...), and(posts...)))
		x.ghostDepth--
		if len(posts) == 0 || len(bvs) == 0 {
			continue
		}
		x.vc.assert(Term{fmt.Sprintf("(forall (%s) (! %s :pattern (%s)))", strings.Join(decl, " "), body.S, res.S), SBool})
		x.vc.assumed["pure-function axiom for "+c.Key] = true
	}
}

func scalarParams(sig *types.Signature) bool {
	ok := func(t types.Type) bool {
		switch u := underlying(t).(type) {
		case *types.Basic:
			return u.Kind() != types.UnsafePointer
		}
		return false
	}
	if sig.Recv() != nil && !ok(sig.Recv().Type()) {
		return false
	}
	for i := 0; i < sig.Params().Len(); i++ {
		if !ok(sig.Params().At(i).Type()) {
			return false
		}
	}
	return true
}

// skipClause: clause tags are property ids (checked only for those properties) and/or
// "thorough" (checked only in the thorough tier; still assumed by callers in both tiers).
func skipClause(cl *Clause, e *Engine) bool {
	var props []string
	thorough := false
	for _, t := range cl.Tags {
		if t == "thorough" {
			thorough = true
		} else {
			props = append(props, t)
		}
	}
	if thorough && e.Tier != "thorough" {
		return true
	}
	if len(props) > 0 && e.CurProp != "" && !anyCommon(props, []string{e.CurProp}) {
		return true
	}
	return false
}
