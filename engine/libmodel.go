package main

// Library models: hand-written semantics for standard-library and dependency
// functions. Every entry used by an obligation is listed in the evidence as
// part of the trusted base (T4).

import (
	"regexp"
	"fmt"
	"go/types"
	"strings"

	"golang.org/x/tools/go/ssa"
)

func (x *Exec) lib(name string) { x.vc.libUsed[name] = true }

// strSliceElems returns (array term, offset, len) for a []string value.
func (x *Exec) sliceParts(st *State, s Term, et types.Type) (arr, off, ln Term) {
	h := x.vc.arrHeap(et)
	return sel(x.heap(st, h), sArr(s), arraySort(SInt, x.vc.sortOf(et))), sOff(s), sLen(s)
}

func (x *Exec) nonNilError(st *State) Term {
	e := x.vc.fresh("err", SIface)
	x.vc.assert(not(eq(iType(e), intLit(0))))
	return e
}

func (x *Exec) libModel(fr *Frame, st *State, ins ssa.Instruction, callee *ssa.Function, args []Term, argVals []ssa.Value, res ssa.Value) bool {
	vc := x.vc
	full := callee.String()
	set := func(ts ...Term) {
		x.lib(full)
		x.setResult(fr, res, callee.Signature, ts)
	}
	stringT := types.Typ[types.String]
	switch full {
	case "fmt.Sprintf", "fmt.Sprint", "fmt.Sprintln":
		// result: a string determined by the format and the argument values (uninterpreted)
		anyT := types.NewInterfaceType(nil, nil)
		var fmtT Term
		var sl Term
		if full == "fmt.Sprintf" {
			fmtT, sl = args[0], args[1]
		} else {
			fmtT, sl = strLit(full), args[0]
		}
		arr, off, ln := x.sliceParts(st, sl, anyT)
		vc.declareFun("sprintf", []Sort{SString, arraySort(SInt, SIface), SInt, SInt}, SString)
		r := vc.name("spf", app(SString, "sprintf", fmtT, arr, off, ln))
		// single %s / %v of a string argument with constant format: concatenation
		if c, ok := argVals[0].(*ssa.Const); ok && full == "fmt.Sprintf" {
			f := constString(c)
			if n, ok2 := x.constLen(fr, argVals[1]); ok2 {
				if t, ok3 := x.sprintfConcat(fr, st, f, n, arr, off, argVals[1]); ok3 {
					r = t
				}
			}
		}
		set(r)
		return true
	case "encoding/json.Unmarshal":
		// writes the value its second argument points to (and what that value owns), nothing else;
		// the decoded value and the error are unconstrained
		mi, ok := argVals[1].(*ssa.MakeInterface)
		if !ok {
			return false
		}
		pt, ok := underlying(mi.X.Type()).(*types.Pointer)
		if !ok {
			return false
		}
		if _, isArr := isArrayType(pt.Elem()); isArr {
			return false
		}
		switch underlying(pt.Elem()).(type) {
		case *types.Basic, *types.Slice, *types.Interface:
		default:
			return false // structs and maps: decoded in place, field by field: not modelled
		}
		if fr.spec {
			panic(engErr("ghost code calls json.Unmarshal"))
		}
		p := x.val(fr, st, mi.X)
		lv := x.ptrLVal(p, mi.X.Type())
		x.frameCheckLVal(fr, st, lv, "json.Unmarshal target", ins.Pos())
		x.havocLVal(st, lv)
		if hn := x.lvHeapName(lv); hn != "" && !isFreshRefTerm(lv.ptr) {
			st.markDirty(hn)
		}
		nt := vc.fresh("top", SInt)
		vc.assert(le(st.top, nt))
		st.top = nt
		st.written["top"] = true
		set(x.freshOf(st, "jerr", callee.Signature.Results().At(0).Type()))
		return true
	case "encoding/json.Marshal", "encoding/json.MarshalIndent":
		// the encoding is a fresh byte slice holding valid UTF-8 ("String values encode as JSON
		// strings coerced to valid UTF-8", encoding/json); content and error otherwise unconstrained
		x.havocReachable(fr, st, callee.Signature, args, argVals[:1], full, ins.Pos())
		byteT := types.Typ[types.Uint8]
		arr := vc.fresh("json", arraySort(SInt, SInt))
		ref := x.alloc(st, types.NewArray(byteT, 0), arr)
		n := vc.fresh("jsonlen", SInt)
		vc.assert(and(le(intLit(0), n), le(n, bigIntLit("9223372036854775807"))))
		vc.declareFun("string_of_slice", []Sort{arraySort(SInt, SInt), SInt, SInt}, SString)
		vc.declareFun("uf_unicode!utf8.ValidString_0", []Sort{SString}, SBool)
		vc.assert(app(SBool, "uf_unicode!utf8.ValidString_0", app(SString, "string_of_slice", arr, intLit(0), n)))
		okT := vc.fresh("jsonok", SBool)
		set(ite(okT, mkSlice(ref, intLit(0), n, n), Term{"(mk-slice 0 0 0 0)", SSlice}), ite(okT, Term{"(mk-iface 0 0)", SIface}, x.nonNilError(st)))
		return true
	case "fmt.Errorf", "errors.New":
		set(x.nonNilError(st))
		return true
	case "fmt.Printf", "fmt.Println", "fmt.Print", "log.Printf", "log.Println", "log.Print", "fmt.Fprintf", "fmt.Fprintln", "fmt.Fprint",
		"io.Copy", "io.WriteString":
		// output only; results (n, err) unconstrained
		var rs []Term
		sig := callee.Signature
		for i := 0; i < sig.Results().Len(); i++ {
			rs = append(rs, x.freshOf(st, "io", sig.Results().At(i).Type()))
		}
		set(rs...)
		return true
	case "log.Fatalf", "log.Fatal", "log.Fatalln", "os.Exit", "log.Panicf":
		x.lib(full)
		st.reach = tFalse
		return true
	case "bytes.NewBuffer", "bytes.NewBufferString":
		// a freshly allocated buffer
		bt := derefType(callee.Signature.Results().At(0).Type())
		ref := x.alloc(st, bt, vc.zero(bt))
		set(ref)
		return true
	case "(*bytes.Buffer).ReadFrom", "(*bytes.Buffer).Write", "(*bytes.Buffer).Reset", "(*bytes.Buffer).Truncate":
		// only the buffer's own content changes
		if fr.spec {
			panic(engErr("ghost code writes to a buffer"))
		}
		h := x.builderHeap(callee)
		x.setHeap(st, h, store(x.heap(st, h), args[0], vc.fresh("bufc", SString)))
		var rs []Term
		for i := 0; i < callee.Signature.Results().Len(); i++ {
			rs = append(rs, x.freshOf(st, "io", callee.Signature.Results().At(i).Type()))
		}
		set(rs...)
		return true
	case "strings.HasPrefix":
		set(app(SBool, "str.prefixof", args[1], args[0]))
		return true
	case "strings.HasSuffix":
		set(app(SBool, "str.suffixof", args[1], args[0]))
		return true
	case "strings.Contains":
		set(app(SBool, "str.contains", args[0], args[1]))
		return true
	case "strings.TrimPrefix":
		s, p := args[0], args[1]
		set(ite(app(SBool, "str.prefixof", p, s), app(SString, "str.substr", s, app(SInt, "str.len", p), sub(app(SInt, "str.len", s), app(SInt, "str.len", p))), s))
		return true
	case "strings.TrimSuffix":
		s, p := args[0], args[1]
		set(ite(app(SBool, "str.suffixof", p, s), app(SString, "str.substr", s, intLit(0), sub(app(SInt, "str.len", s), app(SInt, "str.len", p))), s))
		return true
	case "strings.Join":
		arr, off, ln := x.sliceParts(st, args[0], stringT)
		vc.declareFun("strjoin", []Sort{arraySort(SInt, SString), SInt, SInt, SString}, SString)
		r := app(SString, "strjoin", arr, off, ln, args[1])
		if vc.noName == 0 {
			r = vc.name("join", r)
			vc.assert(implies(eq(ln, intLit(0)), eq(r, strLit(""))))
			vc.assert(implies(eq(ln, intLit(1)), eq(r, sel(arr, off, SString))))
			vc.assert(implies(eq(ln, intLit(2)), eq(r, app(SString, "str.++", sel(arr, off, SString), args[1], sel(arr, add(off, intLit(1)), SString)))))
		}
		set(r)
		return true
	case "strings.Split", "strings.SplitN", "strings.Fields", "strings.SplitAfter", "strings.SplitAfterN":
		// deterministic: length and contents are uninterpreted functions of the arguments;
		// the result is a freshly allocated slice holding them.
		var sorts []Sort
		for _, a := range args {
			sorts = append(sorts, a.Sort)
		}
		tag := mangle(full)
		vc.declareFun("splitlen_"+tag, sorts, SInt)
		vc.declareFun("splitarr_"+tag, sorts, arraySort(SInt, SString))
		ln := app(SInt, "splitlen_"+tag, args...)
		arrT := app(arraySort(SInt, SString), "splitarr_"+tag, args...)
		ref := x.alloc(st, types.NewArray(stringT, 0), arrT)
		r := mkSlice(ref, intLit(0), ln, ln)
		if vc.noName == 0 {
			vc.assert(and(le(intLit(0), ln), le(ln, bigIntLit("9223372036854775807"))))
			if full == "strings.SplitAfter" {
				// a non-empty separator gives at least one piece
				vc.assert(implies(not(eq(args[1], strLit(""))), le(intLit(1), ln)))
			}
			if full == "strings.SplitN" || full == "strings.SplitAfterN" {
				// n > 0: between 1 (non-empty separator) and n pieces; n == 0: nil
				vc.assert(implies(and(lt(intLit(0), args[2]), not(eq(args[1], strLit("")))), and(le(intLit(1), ln), le(ln, args[2]))))
				vc.assert(implies(eq(args[2], intLit(0)), eq(ln, intLit(0))))
				vc.assert(implies(and(lt(args[2], intLit(0)), not(eq(args[1], strLit("")))), le(intLit(1), ln)))
			}
			if full == "strings.Split" {
				// len >= 1 unless the separator is empty; a string without the separator splits into itself
				vc.assert(implies(not(eq(args[1], strLit(""))), le(intLit(1), ln)))
				vc.assert(implies(and(not(eq(args[1], strLit(""))), not(app(SBool, "str.contains", args[0], args[1]))),
					and(eq(ln, intLit(1)), eq(sel(arrT, intLit(0), SString), args[0]))))
			}
			r = vc.name("split", r)
		}
		set(r)
		return true
	case "(*regexp.Regexp).MatchString":
		vc.declareFun("re_match", []Sort{SInt, SString}, SBool)
		set(app(SBool, "re_match", args[0], args[1]))
		return true
	case "(*regexp.Regexp).FindStringIndex":
		// nil when there is no match, else a fresh [2]int slice with 0 <= start <= end <= len(s)
		vc.declareFun("re_match", []Sort{SInt, SString}, SBool)
		vc.declareFun("re_start", []Sort{SInt, SString}, SInt)
		vc.declareFun("re_end", []Sort{SInt, SString}, SInt)
		m := app(SBool, "re_match", args[0], args[1])
		a, b := app(SInt, "re_start", args[0], args[1]), app(SInt, "re_end", args[0], args[1])
		intT := types.Typ[types.Int]
		arrT := store(store(vc.zero(types.NewArray(intT, 0)), intLit(0), a), intLit(1), b)
		ref := x.alloc(st, types.NewArray(intT, 0), arrT)
		if vc.noName == 0 {
			vc.assert(implies(m, and(le(intLit(0), a), le(a, b), le(b, app(SInt, "str.len", args[1])))))
		}
		set(ite(m, mkSlice(ref, intLit(0), intLit(2), intLit(2)), mkSlice(intLit(0), intLit(0), intLit(0), intLit(0))))
		return true
	case "(*regexp.Regexp).FindStringSubmatch":
		// nil when there is no match, else a fresh slice of 1+NumSubexp strings
		vc.declareFun("re_match", []Sort{SInt, SString}, SBool)
		vc.declareFun("re_nsub", []Sort{SInt}, SInt)
		vc.declareFun("re_groups", []Sort{SInt, SString}, arraySort(SInt, SString))
		m := app(SBool, "re_match", args[0], args[1])
		n := add(intLit(1), app(SInt, "re_nsub", args[0]))
		ref := x.alloc(st, types.NewArray(stringT, 0), app(arraySort(SInt, SString), "re_groups", args[0], args[1]))
		if vc.noName == 0 {
			vc.assert(and(le(intLit(0), app(SInt, "re_nsub", args[0])), le(app(SInt, "re_nsub", args[0]), intLit(1000))))
			if pat, ok := x.globalRegexPattern(argVals[0]); ok {
				if re, err := regexp.Compile(pat); err == nil {
					vc.assert(eq(app(SInt, "re_nsub", args[0]), intLit(int64(re.NumSubexp()))))
				}
			}
		}
		set(ite(m, mkSlice(ref, intLit(0), n, n), mkSlice(intLit(0), intLit(0), intLit(0), intLit(0))))
		return true
	case "(*regexp.Regexp).ReplaceAllString", "strings.Replace", "strings.ReplaceAll", "strings.ToLower", "strings.ToUpper",
		"strings.Title", "strings.Repeat", "strings.Map":
		// a string determined by the arguments (uninterpreted)
		if full == "strings.Map" {
			return false
		}
		var sorts []Sort
		for _, a := range args {
			sorts = append(sorts, a.Sort)
		}
		vc.declareFun("strfn_"+mangle(full), sorts, SString)
		set(app(SString, "strfn_"+mangle(full), args...))
		return true
	case "strings.TrimSpace", "strings.TrimLeft", "strings.TrimRight", "strings.Trim":
		// a substring of the argument (uninterpreted otherwise)
		var sorts []Sort
		for _, a := range args {
			sorts = append(sorts, a.Sort)
		}
		vc.declareFun("strfn_"+mangle(full), sorts, SString)
		r := app(SString, "strfn_"+mangle(full), args...)
		if vc.noName == 0 {
			r = vc.name("trim", r)
			vc.assert(app(SBool, "str.contains", args[0], r))
		}
		set(r)
		return true
	case "strconv.Unquote":
		vc.declareFun("strfn_unquote", []Sort{SString}, SString)
		vc.declareFun("strfn_unquote_ok", []Sort{SString}, SBool)
		okT := app(SBool, "strfn_unquote_ok", args[0])
		e := x.nonNilError(st)
		set(ite(okT, app(SString, "strfn_unquote", args[0]), strLit("")), ite(okT, Term{"(mk-iface 0 0)", SIface}, e))
		return true
	case "sort.Strings":
		x.sortPerm(fr, st, args[0], stringT, ins, nil, nil)
		x.lib(full)
		return true
	case "sort.Sort", "sort.Stable":
		// sort.Sort(x) where x is a slice type implementing sort.Interface by indexing itself
		// (Len = len(x), Swap exchanges x[i] and x[j] - checked syntactically): afterwards the
		// slice holds a permutation of its former elements, ordered by the type's own Less.
		mi, ok := argVals[0].(*ssa.MakeInterface)
		if !ok {
			return false
		}
		slt, ok := underlying(mi.X.Type()).(*types.Slice)
		if !ok || !x.plainSliceSorter(mi.X.Type()) {
			return false
		}
		sv := x.val(fr, st, mi.X)
		x.sortPerm(fr, st, sv, slt.Elem(), ins, x.lessMethod(mi.X.Type()), nil)
		x.lib(full + " (permutation, ordered by the type's Less)")
		return true
	case "sort.Slice", "sort.SliceStable":
		mi, ok := argVals[0].(*ssa.MakeInterface)
		if !ok {
			return false
		}
		slt, ok := underlying(mi.X.Type()).(*types.Slice)
		if !ok {
			return false
		}
		clo := x.closureOf(fr, st, argVals[1])
		if clo == nil {
			return false
		}
		sv := x.val(fr, st, mi.X)
		x.sortPerm(fr, st, sv, slt.Elem(), ins, nil, clo)
		x.lib(full + " (permutation, ordered by the less function given)")
		return true
	case "path/filepath.Join", "path.Join":
		// a string determined by the element VALUES (the variadic slice is a temporary)
		if n, ok := x.constLen(fr, argVals[0]); ok && n <= 6 {
			arr, off, _ := x.sliceParts(st, args[0], stringT)
			var es []Term
			var sorts []Sort
			for j := int64(0); j < n; j++ {
				es = append(es, sel(arr, add(off, intLit(j)), SString))
				sorts = append(sorts, SString)
			}
			name := fmt.Sprintf("pathjoin%d", n)
			vc.declareFun(name, sorts, SString)
			set(app(SString, name, es...))
			return true
		}
		return false
	case "(*strings.Builder).WriteString", "(*bytes.Buffer).WriteString":
		x.builderAppend(fr, st, callee, args[0], args[1])
		set(app(SInt, "str.len", args[1]), Term{"(mk-iface 0 0)", SIface})
		return true
	case "(*strings.Builder).WriteByte", "(*bytes.Buffer).WriteByte":
		x.builderAppend(fr, st, callee, args[0], app(SString, "str.from_code", args[1]))
		set(Term{"(mk-iface 0 0)", SIface})
		return true
	case "(*strings.Builder).WriteRune", "(*bytes.Buffer).WriteRune":
		vc.declareFun("string_of_rune", []Sort{SInt}, SString)
		rs := app(SString, "string_of_rune", args[1])
		vc.assert(implies(and(le(intLit(0), args[1]), lt(args[1], intLit(128))), eq(rs, app(SString, "str.from_code", args[1]))))
		x.builderAppend(fr, st, callee, args[0], rs)
		set(app(SInt, "str.len", rs), Term{"(mk-iface 0 0)", SIface})
		return true
	case "(*strings.Builder).String", "(*bytes.Buffer).String":
		set(x.builderContent(st, callee, args[0]))
		return true
	case "(*strings.Builder).Len", "(*bytes.Buffer).Len":
		set(app(SInt, "str.len", x.builderContent(st, callee, args[0])))
		return true
	}
	_ = fmt.Sprint
	return false
}

func constString(c *ssa.Const) string {
	if c.Value == nil {
		return ""
	}
	s := c.Value.ExactString()
	// ExactString quotes
	var out string
	if _, err := fmt.Sscanf(s, "%q", &out); err == nil {
		return out
	}
	return strings.Trim(s, `"`)
}

// sprintfConcat handles formats made only of literal text and %s / %v verbs
// whose arguments are strings: the result is the concatenation.
func (x *Exec) sprintfConcat(fr *Frame, st *State, f string, n int64, arr, off Term, sliceVal ssa.Value) (Term, bool) {
	vc := x.vc
	var parts []Term
	argi := int64(0)
	lit := ""
	for i := 0; i < len(f); i++ {
		if f[i] != '%' {
			lit += string(f[i])
			continue
		}
		if i+1 >= len(f) {
			return Term{}, false
		}
		v := f[i+1]
		i++
		if v == '%' {
			lit += "%"
			continue
		}
		if v != 's' && v != 'v' {
			return Term{}, false
		}
		if argi >= n {
			return Term{}, false
		}
		if lit != "" {
			parts = append(parts, strLit(lit))
			lit = ""
		}
		el := sel(arr, add(off, intLit(argi)), SIface)
		// must be a string dynamically: only use concatenation when the stored value was a string
		parts = append(parts, vc.unbox(types.Typ[types.String], iVal(el)))
		// guard: caller checks the dynamic type below
		argi++
	}
	if lit != "" {
		parts = append(parts, strLit(lit))
	}
	if argi != n {
		return Term{}, false
	}
	// all arguments must be strings (by their static MakeInterface operands)
	sl := sliceVal.(*ssa.Slice)
	alloc, ok := sl.X.(*ssa.Alloc)
	if !ok {
		return Term{}, false
	}
	count := 0
	for _, ref := range *alloc.Referrers() {
		ia, ok := ref.(*ssa.IndexAddr)
		if !ok {
			continue
		}
		for _, r2 := range *ia.Referrers() {
			if s, ok := r2.(*ssa.Store); ok {
				mi, ok := s.Val.(*ssa.MakeInterface)
				if !ok {
					return Term{}, false
				}
				if b, ok := underlying(mi.X.Type()).(*types.Basic); !ok || b.Info()&types.IsString == 0 {
					return Term{}, false
				}
				if _, named := mi.X.Type().(*types.Named); named {
					return Term{}, false // String() methods / named string types print differently
				}
				count++
			}
		}
	}
	if int64(count) != n {
		return Term{}, false
	}
	switch len(parts) {
	case 0:
		return strLit(""), true
	case 1:
		return parts[0], true
	}
	return vc.name("cat", app(SString, "str.++", parts...)), true
}

// builder content is a ghost string per builder object, kept in a heap
// "B_strings.Builder" : Array Int String.
func (x *Exec) builderHeap(callee *ssa.Function) heapID {
	return heapID{"BUF_content", arraySort(SInt, SString)}
}

func (x *Exec) builderContent(st *State, callee *ssa.Function, b Term) Term {
	return sel(x.heap(st, x.builderHeap(callee)), b, SString)
}

func (x *Exec) builderAppend(fr *Frame, st *State, callee *ssa.Function, b Term, s Term) {
	if fr.spec {
		panic(engErr("ghost code writes to a builder"))
	}
	h := x.builderHeap(callee)
	cur := sel(x.heap(st, h), b, SString)
	x.setHeap(st, h, store(x.heap(st, h), b, app(SString, "str.++", cur, s)))
}

// sortStrings: the slice afterwards is a sorted permutation of before.
func (x *Exec) sortStrings(fr *Frame, st *State, s Term, ins ssa.Instruction) {
	vc := x.vc
	if fr.spec {
		panic(engErr("ghost code sorts"))
	}
	stringT := types.Typ[types.String]
	h := vc.arrHeap(stringT)
	as := arraySort(SInt, SString)
	old := vc.name("so", sel(x.heap(st, h), sArr(s), as))
	na := vc.fresh("sorted", as)
	off, ln := vc.name("sof", sOff(s)), vc.name("sln", sLen(s))
	vc.nfresh++
	pi := fmt.Sprintf("perm!%d", vc.nfresh)
	vc.declareFun(pi, []Sort{SInt}, SInt)
	// outside the slice window nothing changes
	vc.assert(Term{fmt.Sprintf("(forall ((i Int)) (! (=> (or (< i %[1]s) (>= i (+ %[1]s %[2]s))) (= (select %[3]s i) (select %[4]s i))) :pattern ((select %[3]s i))))", off.S, ln.S, na.S, old.S), SBool})
	// permutation witness
	vc.assert(Term{fmt.Sprintf("(forall ((i Int)) (! (=> (and (<= 0 i) (< i %[2]s)) (and (<= 0 (%[5]s i)) (< (%[5]s i) %[2]s) (= (select %[3]s (+ %[1]s i)) (select %[4]s (+ %[1]s (%[5]s i)))))) :pattern ((%[5]s i))))", off.S, ln.S, na.S, old.S, pi), SBool})
	vc.assert(Term{fmt.Sprintf("(forall ((i Int) (j Int)) (! (=> (and (<= 0 i) (< i j) (< j %[1]s)) (not (= (%[2]s i) (%[2]s j)))) :pattern ((%[2]s i) (%[2]s j))))", ln.S, pi), SBool})
	// sortedness
	vc.assert(Term{fmt.Sprintf("(forall ((i Int) (j Int)) (! (=> (and (<= 0 i) (<= i j) (< j %[2]s)) (str.<= (select %[3]s (+ %[1]s i)) (select %[3]s (+ %[1]s j)))) :pattern ((select %[3]s (+ %[1]s i)) (select %[3]s (+ %[1]s j)))))", off.S, ln.S, na.S), SBool})
	x.frameCheckLVal(fr, st, &LVal{ptr: sArr(s), rootT: stringT, arr: true, typ: stringT}, "sort.Strings", ins.Pos())
	x.setHeap(st, h, store(x.heap(st, h), sArr(s), na))
}


// plainSliceSorter: the named slice type implements sort.Interface in the plain way: Len returns
// len(x) and Swap exchanges x[i] and x[j] (both bodies are matched instruction by instruction).
func (x *Exec) plainSliceSorter(t types.Type) bool {
	get := func(name string) *ssa.Function {
		ms := x.eng.Prog.MethodSets.MethodSet(t)
		for i := 0; i < ms.Len(); i++ {
			if ms.At(i).Obj().Name() == name {
				return x.eng.Prog.MethodValue(ms.At(i))
			}
		}
		return nil
	}
	ln, sw, ls := get("Len"), get("Swap"), get("Less")
	if ln == nil || sw == nil || ls == nil {
		return false
	}
	for _, f := range []*ssa.Function{ln, sw, ls} {
		x.eng.ensureBuilt(f)
		if len(f.Blocks) == 0 {
			return false
		}
	}
	// Len: a single block whose only call is len(receiver)
	okLen := false
	if len(ln.Blocks) == 1 {
		for _, in := range ln.Blocks[0].Instrs {
			if c, ok := in.(*ssa.Call); ok {
				if b, ok := c.Call.Value.(*ssa.Builtin); ok && b.Name() == "len" {
					okLen = true
				} else if ok && strings.HasPrefix(b.Name(), "ssa:") {
					continue
				} else {
					return false
				}
			}
		}
	}
	// Swap: single block, exactly two stores, both through IndexAddr of the receiver, no calls
	okSwap := false
	if len(sw.Blocks) == 1 {
		stores := 0
		okSwap = true
		for _, in := range sw.Blocks[0].Instrs {
			switch v := in.(type) {
			case *ssa.Store:
				if _, isCell := v.Addr.(*ssa.Alloc); isCell {
					continue
				}
				if _, ok := v.Addr.(*ssa.IndexAddr); !ok {
					okSwap = false
				}
				stores++
			case *ssa.Call:
				if b, ok := v.Call.Value.(*ssa.Builtin); !ok || !strings.HasPrefix(b.Name(), "ssa:") {
					okSwap = false
				}
			case *ssa.MapUpdate:
				okSwap = false
			}
		}
		if stores != 2 {
			okSwap = false
		}
	}
	return okLen && okSwap
}

func (x *Exec) lessMethod(t types.Type) *ssa.Function {
	ms := x.eng.Prog.MethodSets.MethodSet(t)
	for i := 0; i < ms.Len(); i++ {
		if ms.At(i).Obj().Name() == "Less" {
			return x.eng.Prog.MethodValue(ms.At(i))
		}
	}
	return nil
}

// sortPerm: the slice s (elements of type et) afterwards holds a permutation of its former
// elements (explicit permutation witness, injective on the index range) such that for no
// i < j the element at j is less than the element at i, with "less" the type's own Less method
// (lessFn, receiver = the sorted slice) or the closure handed to sort.Slice (lessClo, which
// indexes the same slice variable), executed symbolically inside the quantifier.
func (x *Exec) sortPerm(fr *Frame, st *State, s Term, et types.Type, ins ssa.Instruction, lessFn *ssa.Function, lessClo *closure) {
	vc := x.vc
	if fr.spec {
		panic(engErr("ghost code sorts"))
	}
	if vc.noName > 0 {
		panic(engErr("sort inside quantifier body"))
	}
	h := vc.arrHeap(et)
	es := vc.sortOf(et)
	as := arraySort(SInt, es)
	old := vc.name("so", sel(x.heap(st, h), sArr(s), as))
	na := vc.fresh("sorted", as)
	ln := vc.name("sln", sLen(s))
	vc.nfresh++
	pi := fmt.Sprintf("perm!%d", vc.nfresh)
	vc.declareFun(pi, []Sort{SInt}, SInt)
	inv := fmt.Sprintf("pinv!%d", vc.nfresh)
	vc.declareFun(inv, []Sort{SInt}, SInt)
	// outside the slice window nothing changes
	vc.assert(Term{fmt.Sprintf("(forall ((i Int)) (! (=> (or (< i 0) (>= i %[1]s)) (= (select %[2]s i) (select %[3]s i))) :pattern ((select %[2]s i))))", ln.S, na.S, old.S), SBool})
	// permutation witness pi with inverse pinv: new[i] = old[pi(i)], pinv(pi(i)) = i, and every old index is hit
	vc.assert(Term{fmt.Sprintf("(forall ((i Int)) (! (=> (and (<= 0 i) (< i %[1]s)) (and (<= 0 (%[4]s i)) (< (%[4]s i) %[1]s) (= (%[5]s (%[4]s i)) i) (= (select %[2]s i) (select %[3]s (%[4]s i))))) :pattern ((%[4]s i)) :pattern ((select %[2]s i))))", ln.S, na.S, old.S, pi, inv), SBool})
	vc.assert(Term{fmt.Sprintf("(forall ((k Int)) (! (=> (and (<= 0 k) (< k %[1]s)) (and (<= 0 (%[3]s k)) (< (%[3]s k) %[1]s) (= (%[2]s (%[3]s k)) k))) :pattern ((%[3]s k)) :pattern ((select %[4]s k))))", ln.S, pi, inv, old.S), SBool})
	x.frameCheckLVal(fr, st, &LVal{ptr: sArr(s), rootT: et, arr: true, typ: et}, "sort", ins.Pos())
	x.setHeap(st, h, store(x.heap(st, h), sArr(s), na))
	if !isFreshRefTerm(sArr(s)) {
		st.markDirty(h.name)
	}
	if lessFn == nil && lessClo == nil {
		// sort.Strings: byte-wise order of the strings themselves
		vc.assert(Term{fmt.Sprintf("(forall ((i Int) (j Int)) (! (=> (and (<= 0 i) (<= i j) (< j %[1]s)) (str.<= (select %[2]s i) (select %[2]s j))) :pattern ((select %[2]s i) (select %[2]s j))))", ln.S, na.S), SBool})
		return
	}
	// ordering: forall i < j in range: !less(j, i)
	func() {
		defer func() {
			if r := recover(); r != nil {
				if ee, ok := r.(*engError); ok {
					x.note("sort: the ordering by Less could not be expressed (%s); only the permutation is assumed", ee.msg)
					vc.binders, vc.letStack, vc.noName = nil, nil, 0
					return
				}
				panic(r)
			}
		}()
		bi := Term{fmt.Sprintf("bv!sort%d!i", vc.nfresh), SInt}
		bj := Term{fmt.Sprintf("bv!sort%d!j", vc.nfresh), SInt}
		vc.openBinder(bi.S)
		s2 := st.clone()
		s2.reach = tTrue
		var vals []Term
		tmp := x.newFrame(fr.fn, fr)
		tmp.spec = true
		x.ghostDepth++
		if lessFn != nil {
			vals = x.inlineRun(tmp, s2, lessFn, nil, []Term{s, bj, bi}, ins.Pos())
		} else {
			vals = x.inlineRun(tmp, s2, lessClo.fn, lessClo, []Term{bj, bi}, ins.Pos())
		}
		x.ghostDepth--
		body, _ := vc.closeBinder(implies(and(le(intLit(0), bi), lt(bi, bj), lt(bj, ln)), not(vals[0])))
		vc.assert(Term{fmt.Sprintf("(forall ((%s Int) (%s Int)) (! %s :pattern ((select %s %s) (select %s %s))))", bi.S, bj.S, body.S, na.S, bi.S, na.S, bj.S), SBool})
	}()
}

// globalRegexPattern: the constant pattern a package-level *regexp.Regexp variable is compiled
// from (assigned once, in the package initialiser, by regexp.MustCompile of a constant).
func (x *Exec) globalRegexPattern(v ssa.Value) (string, bool) {
	u, ok := v.(*ssa.UnOp)
	if !ok {
		return "", false
	}
	g, ok := u.X.(*ssa.Global)
	if !ok || g.Pkg == nil {
		return "", false
	}
	pat, n := "", 0
	var walk func(fn *ssa.Function)
	walk = func(fn *ssa.Function) {
		for _, b := range fn.Blocks {
			for _, ins := range b.Instrs {
				s, ok := ins.(*ssa.Store)
				if !ok || s.Addr != ssa.Value(g) {
					continue
				}
				n++
				if fn.Name() != "init" {
					n += 100
				}
				if c, ok := s.Val.(*ssa.Call); ok {
					if f := c.Call.StaticCallee(); f != nil && f.String() == "regexp.MustCompile" {
						if k, ok := c.Call.Args[0].(*ssa.Const); ok {
							pat = constString(k)
							continue
						}
					}
				}
				n += 100
			}
		}
		for _, af := range fn.AnonFuncs {
			walk(af)
		}
	}
	for _, m := range g.Pkg.Members {
		if fn, ok := m.(*ssa.Function); ok {
			walk(fn)
		}
	}
	// methods
	for _, m := range g.Pkg.Members {
		if tn, ok := m.(*ssa.Type); ok {
			for _, t := range []types.Type{tn.Type(), types.NewPointer(tn.Type())} {
				ms := g.Pkg.Prog.MethodSets.MethodSet(t)
				for i := 0; i < ms.Len(); i++ {
					if fn := g.Pkg.Prog.MethodValue(ms.At(i)); fn != nil && fn.Pkg == g.Pkg {
						walk(fn)
					}
				}
			}
		}
	}
	return pat, n == 1
}


// libNoWrite: modelled library functions that write no object existing before the call (they
// compute a value or allocate a fresh result).
func libNoWrite(full string) bool {
	switch full {
	case "strings.HasPrefix", "strings.HasSuffix", "strings.Contains", "strings.TrimPrefix", "strings.TrimSuffix",
		"(*regexp.Regexp).MatchString", "(*regexp.Regexp).FindStringIndex", "(*regexp.Regexp).FindStringSubmatch",
		"(*regexp.Regexp).ReplaceAllString", "strings.Replace", "strings.ReplaceAll", "strings.ToLower", "strings.ToUpper",
		"strings.Title", "strings.Repeat", "strings.TrimSpace", "strings.TrimLeft", "strings.TrimRight", "strings.Trim",
		"strconv.Unquote":
		return true
	}
	return false
}
