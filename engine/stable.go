package main

// Stable fields ("//@ stable Cxx T.f [writers ...]"): a frame condition established once for
// the whole package by a census of its SSA, and used wherever a heap of T objects is havocked.

import (
	"fmt"
	"go/types"
	"sort"
	"strings"

	"golang.org/x/tools/go/ssa"
)

// allFunctions lists every function of the package: members, methods, function literals.
func (e *Engine) allFunctions(tp *TargetPkg) []*ssa.Function {
	var res []*ssa.Function
	seen := map[*ssa.Function]bool{}
	var add func(f *ssa.Function)
	add = func(f *ssa.Function) {
		if f == nil || seen[f] {
			return
		}
		seen[f] = true
		e.ensureBuilt(f)
		res = append(res, f)
		for _, af := range f.AnonFuncs {
			add(af)
		}
	}
	names := make([]string, 0, len(tp.SSA.Members))
	for n := range tp.SSA.Members {
		names = append(names, n)
	}
	sort.Strings(names)
	for _, n := range names {
		switch m := tp.SSA.Members[n].(type) {
		case *ssa.Function:
			add(m)
		case *ssa.Type:
			for _, t := range []types.Type{m.Type(), types.NewPointer(m.Type())} {
				ms := e.Prog.MethodSets.MethodSet(t)
				for i := 0; i < ms.Len(); i++ {
					if mf := e.Prog.MethodValue(ms.At(i)); mf != nil && mf.Pkg == tp.SSA {
						add(mf)
					}
				}
			}
		}
	}
	return res
}

func (e *Engine) stableType(tp *TargetPkg, sf *StableField) (types.Type, int, error) {
	obj := tp.Types.Scope().Lookup(sf.Type)
	if obj == nil {
		return nil, 0, fmt.Errorf("stable: no type %s in %s", sf.Type, tp.Path)
	}
	st, ok := obj.Type().Underlying().(*types.Struct)
	if !ok {
		return nil, 0, fmt.Errorf("stable: %s is not a struct type", sf.Type)
	}
	for i := 0; i < st.NumFields(); i++ {
		if st.Field(i).Name() == sf.Field {
			return obj.Type(), i, nil
		}
	}
	return nil, 0, fmt.Errorf("stable: %s has no field %s", sf.Type, sf.Field)
}

// stableCensus returns the places that may write T.f in an object the writing function did not
// allocate itself (or let the field's address escape), outside the listed writers.
func (e *Engine) stableCensus(tp *TargetPkg, sf *StableField) ([]string, error) {
	T, idx, err := e.stableType(tp, sf)
	if err != nil {
		return nil, err
	}
	if len(sf.Writers) > 0 {
		// a field with writers could change inside an unmodelled callee that reaches a writer:
		// the census alone does not carry it across calls
		return nil, fmt.Errorf("stable %s.%s: the 'writers' option is not supported (unsound across calls that may reach a writer)", sf.Type, sf.Field)
	}
	key := typeKey(T)
	isWriter := func(fn *ssa.Function) bool {
		for f := fn; f != nil; f = f.Parent() {
			for _, w := range sf.Writers {
				if contractKeyOfFn(f) == w {
					return true
				}
			}
		}
		return false
	}
	var bad []string
	for _, fn := range e.allFunctions(tp) {
		if strings.HasPrefix(fn.Name(), "vs_") || isWriter(fn) {
			continue
		}
		for _, b := range fn.Blocks {
			for _, ins := range b.Instrs {
				switch v := ins.(type) {
				case *ssa.FieldAddr:
					pt, ok := underlying(v.X.Type()).(*types.Pointer)
					if !ok || typeKey(pt.Elem()) != key || v.Field != idx {
						continue
					}
					_, local := v.X.(*ssa.Alloc)
					for _, r := range *v.Referrers() {
						switch u := r.(type) {
						case *ssa.UnOp: // load
						case *ssa.DebugRef:
						case *ssa.Store:
							if u.Addr == ssa.Value(v) {
								if !local {
									bad = append(bad, fmt.Sprintf("%s stores to %s.%s of an object it did not allocate (%s)", shortFn(fn), sf.Type, sf.Field, posStr(e.Fset, u.Pos())))
								}
							} else {
								bad = append(bad, fmt.Sprintf("%s lets the address of %s.%s escape (%s)", shortFn(fn), sf.Type, sf.Field, posStr(e.Fset, u.Pos())))
							}
						default:
							bad = append(bad, fmt.Sprintf("%s uses the address of %s.%s in %T (%s)", shortFn(fn), sf.Type, sf.Field, r, posStr(e.Fset, v.Pos())))
						}
					}
				case *ssa.Store:
					// whole-struct assignment through a pointer
					if typeKey(v.Val.Type()) == key {
						if _, local := v.Addr.(*ssa.Alloc); !local {
							bad = append(bad, fmt.Sprintf("%s overwrites a whole %s it did not allocate (%s)", shortFn(fn), sf.Type, posStr(e.Fset, v.Pos())))
						}
					}
				}
			}
		}
	}
	sort.Strings(bad)
	return bad, nil
}

// contractKeyOfFn renders a function the way contract files name it.
func contractKeyOfFn(fn *ssa.Function) string {
	if recv := fn.Signature.Recv(); recv != nil {
		t := recv.Type()
		star := false
		if p, ok := t.(*types.Pointer); ok {
			star = true
			t = p.Elem()
		}
		name := ""
		if n, ok := t.(*types.Named); ok {
			name = n.Obj().Name()
		}
		if star {
			return "(*" + name + ")." + fn.Name()
		}
		return name + "." + fn.Name()
	}
	return fn.Name()
}

// verifyStable turns the census of one directive into an obligation.
func (e *Engine) verifyStable(tp *TargetPkg, sf *StableField, props []string) *UnitResult {
	pkg := tp.Path[strings.LastIndex(tp.Path, "/")+1:]
	unit := fmt.Sprintf("%s#stable[%s.%s]", pkg, sf.Type, sf.Field)
	res := &UnitResult{Unit: unit, Kind: "census", Props: props}
	bad, err := e.stableCensus(tp, sf)
	if err != nil {
		res.Err = err.Error()
		return res
	}
	vc := newVC(e)
	goal := tTrue
	if len(bad) > 0 {
		goal = tFalse
	}
	o := &Obligation{Name: unit + "#frame[no function writes the field in an object it did not allocate]", Kind: "frame", Func: unit, Unit: unit,
		Path: tTrue, Goal: goal, Pos: fmt.Sprintf("%s:%d", strings.TrimPrefix(sf.File, repoDir+"/"), sf.Line), Props: props, vc: vc, Detail: strings.Join(bad, "\n")}
	res.Obls = []*Obligation{o}
	res.Notes = append(res.Notes, fmt.Sprintf("field census over %d functions of %s (reflect/unsafe writes are not seen: assumed absent)", len(e.allFunctions(tp)), pkg))
	return res
}

// stableFields: for a heap name, the fields (index, struct info) that keep their value across
// havoc, for units whose function is not a listed writer.
type stableRef struct {
	si  *structInfo
	idx int
	sf  *StableField
}

func (x *Exec) stableFields(heapName string) []stableRef {
	if x.root == nil || x.root.fn.Pkg == nil {
		return nil
	}
	tp := x.eng.Targets[x.root.fn.Pkg.Pkg.Path()]
	if tp == nil {
		return nil
	}
	var res []stableRef
	for _, sf := range tp.Stable {
		T, idx, err := x.eng.stableType(tp, sf)
		if err != nil || x.vc.objHeap(T).name != heapName {
			continue
		}
		writer := false
		for f := x.root.fn; f != nil; f = f.Parent() {
			for _, w := range sf.Writers {
				if contractKeyOfFn(f) == w {
					writer = true
				}
			}
		}
		if writer {
			continue
		}
		res = append(res, stableRef{x.vc.structInfoOf(T), idx, sf})
	}
	return res
}

// keepStable asserts that the stable fields of every object existing so far have the same value
// in the new heap version as in the old one.
func (x *Exec) keepStable(heapName string, oldH, newH, top Term) {
	for _, sr := range x.stableFields(heapName) {
		f := sr.si.fields[sr.idx]
		x.vc.assert(Term{fmt.Sprintf("(forall ((r Int)) (! (=> (<= r %s) (= (%s (select %s r)) (%s (select %s r)))) :pattern ((select %s r))))", top.S, f, newH.S, f, oldH.S, newH.S), SBool})
		x.vc.assumed[fmt.Sprintf("stable field %s.%s keeps its value across calls (census obligation of %s)", sr.sf.Type, sr.sf.Field, strings.Join(sr.sf.Props, ","))] = true
	}
}
