package main

import (
	"flag"
	"fmt"
	"os"
	"sort"
	"strings"
	"time"

	"golang.org/x/tools/go/ssa"
)

func main() {
	if len(os.Args) < 2 {
		fmt.Fprintln(os.Stderr, "usage: gocv unit|check ...")
		os.Exit(2)
	}
	switch os.Args[1] {
	case "unit":
		cmdUnit(os.Args[2:])
	case "check":
		cmdCheck(os.Args[2:])
	case "ghost":
		cmdGhost(os.Args[2:])
	default:
		fmt.Fprintln(os.Stderr, "unknown command")
		os.Exit(2)
	}
}

func cmdGhost(args []string) {
	fs := flag.NewFlagSet("ghost", flag.ExitOnError)
	pkg := fs.String("pkg", "cmd/swagger/commands/diff", "package (module-relative)")
	fs.Parse(args)
	e, err := Load([]string{*pkg}, "/verif/ghost", nil)
	if err != nil {
		fmt.Println("LOAD ERROR:", err)
		os.Exit(3)
	}
	for _, tp := range e.Targets {
		fmt.Println(string(tp.GhostSrc["zz_vs_generated.go"]))
	}
}

// cmdUnit: development command — verify selected units of one package and print everything.
func cmdUnit(args []string) {
	fs := flag.NewFlagSet("unit", flag.ExitOnError)
	pkg := fs.String("pkg", "cmd/swagger/commands/diff", "package (module-relative)")
	fun := fs.String("func", "", "comma-separated contract keys / lemma names (empty: all)")
	timeout := fs.Int("t", 25, "solver timeout (s)")
	keep := fs.Bool("keep", false, "keep SMT files")
	verbose := fs.Bool("v", false, "verbose")
	doReplay := fs.Bool("replay", false, "replay failing obligations on the real code")
	tier := fs.String("tier", "quick", "quick|thorough")
	fs.Parse(args)
	t0 := time.Now()
	e, err := Load(strings.Split(*pkg, ","), "/verif/ghost", nil)
	if err != nil {
		fmt.Println("LOAD ERROR:", err)
		os.Exit(3)
	}
	e.Tier = *tier
	fmt.Printf("loaded in %.1fs\n", time.Since(t0).Seconds())
	want := map[string]bool{}
	for _, f := range strings.Split(*fun, ",") {
		if f != "" {
			want[f] = true
		}
	}
	var units []*UnitResult
	for _, tp := range e.Targets {
		if len(want) == 0 || want["init"] {
			if r := e.verifyInit(tp, nil); r != nil {
				units = append(units, r)
			}
		}
		for _, sf := range tp.Stable {
			if len(want) == 0 || want["stable"] {
				units = append(units, e.verifyStable(tp, sf, nil))
			}
		}
		keys := sortedKeys(tp.Contracts)
		for _, k := range keys {
			if len(want) > 0 && !want[k] {
				continue
			}
			if tp.Contracts[k].Inline {
				continue
			}
			units = append(units, e.verifyContract(tp.Contracts[k]))
		}
		var lemmas []*ssa.Function
		for name, m := range tp.SSA.Members {
			if fn, ok := m.(*ssa.Function); ok && strings.HasPrefix(name, "vs_lemma_") {
				if len(want) > 0 && !want[name] {
					continue
				}
				lemmas = append(lemmas, fn)
			}
		}
		sort.Slice(lemmas, func(i, j int) bool { return lemmas[i].Name() < lemmas[j].Name() })
		for _, l := range lemmas {
			units = append(units, e.verifyLemma(l, nil))
		}
	}
	os.MkdirAll("/verif/.work", 0o755)
	work, _ := os.MkdirTemp("/verif/.work", "unit")
	if !*keep {
		defer os.RemoveAll(work)
	}
	var all []*Obligation
	for _, u := range units {
		all = append(all, u.Obls...)
	}
	t1 := time.Now()
	dischargeAll(work, all, *timeout)
	fmt.Printf("generated %d obligations; solved in %.1fs\n", len(all), time.Since(t1).Seconds())
	bad := 0
	for _, u := range units {
		fmt.Printf("== %s (%s) instrs=%d obligations=%d\n", u.Unit, u.Kind, u.Instrs, len(u.Obls))
		if u.Err != "" {
			fmt.Printf("   ENGINE: %s\n", u.Err)
			bad++
		}
		if *verbose {
			if len(u.Inlined) > 0 {
				fmt.Printf("   inlined: %s\n", strings.Join(u.Inlined, ", "))
			}
			if len(u.Havocked) > 0 {
				fmt.Printf("   havoc: %s\n", strings.Join(u.Havocked, ", "))
			}
			if len(u.Pure) > 0 {
				fmt.Printf("   pure-uf: %s\n", strings.Join(u.Pure, ", "))
			}
			if len(u.Lib) > 0 {
				fmt.Printf("   lib: %s\n", strings.Join(u.Lib, ", "))
			}
			for _, n := range u.Notes {
				fmt.Printf("   note: %s\n", n)
			}
		}
		for _, o := range u.Obls {
			ok := o.Result.Status == "unsat"
			if o.Cover {
				ok = o.Result.Status == "sat"
			}
			if ok && !*verbose {
				continue
			}
			mark := "ok  "
			if !ok {
				mark = "FAIL"
				bad++
			}
			fmt.Printf("   %s %-7s %-8s %5dms %6dB %s  (%s)\n", mark, o.Result.Status, o.Result.Solver, o.Result.Ms, o.Result.Bytes, o.Name, o.Pos)
			if !ok {
				for s, out := range o.Result.Outputs {
					fmt.Printf("        %s: %s\n", s, out)
				}
				if *keep {
					fmt.Printf("        script: %s\n", o.Result.Script)
				}
				if *doReplay {
					os.MkdirAll("/verif/out/debug/replay", 0o755)
					rp, ok := replayObligation(e, o, "/verif/out/debug", work)
					fmt.Printf("        replay: reproduced=%v %s\n", ok, rp)
				} else if os.Getenv("GOCV_DEBUG_MODEL") != "" {
					rp, _ := replayObligation(e, o, "/verif/out/debug", work)
					fmt.Printf("        model dump: %s\n", rp)
				}
			}
		}
	}
	fmt.Printf("total %.1fs, failures=%d\n", time.Since(t0).Seconds(), bad)
	if bad > 0 {
		if !*keep {
			os.RemoveAll(work)
		}
		os.Exit(1)
	}
}

