package main

import (
	"bytes"
	"context"
	"fmt"
	"os"
	"os/exec"
	"path/filepath"
	"strings"
	"sync"
	"time"
)

type SolveResult struct {
	Status  string // "unsat" | "sat" | "unknown"
	Solver  string
	Ms      int64
	Bytes   int
	Outputs map[string]string // per solver raw first lines (when not unsat)
	Script  string
}

type solverSpec struct {
	name string
	args func(file string, timeoutS int) []string
}

var solvers = []solverSpec{
	{"z3-new", func(f string, t int) []string { return []string{"z3-new", fmt.Sprintf("-T:%d", t), f} }},
	{"cvc5", func(f string, t int) []string {
		return []string{"cvc5", fmt.Sprintf("--tlimit=%d", t*1000), "--strings-exp", f}
	}},
	{"z3", func(f string, t int) []string { return []string{"z3", fmt.Sprintf("-T:%d", t), f} }},
	// enumerative instantiation: decides many alternating-quantifier goals the default modes give up on
	{"cvc5-enum", func(f string, t int) []string {
		return []string{"cvc5", fmt.Sprintf("--tlimit=%d", t*1000), "--strings-exp", "--enum-inst", f}
	}},
}

var procSem = make(chan struct{}, 20)

func runSolver(ctx context.Context, sp solverSpec, file string, timeoutS int) (status, out string) {
	procSem <- struct{}{}
	defer func() { <-procSem }()
	if ctx.Err() != nil {
		return "cancelled", ""
	}
	argv := sp.args(file, timeoutS)
	cctx, cancel := context.WithTimeout(ctx, time.Duration(timeoutS+2)*time.Second)
	defer cancel()
	cmd := exec.CommandContext(cctx, argv[0], argv[1:]...)
	var buf bytes.Buffer
	cmd.Stdout = &buf
	cmd.Stderr = &buf
	_ = cmd.Run()
	out = buf.String()
	first := strings.TrimSpace(strings.SplitN(out, "\n", 2)[0])
	switch first {
	case "unsat", "sat":
		return first, out
	}
	if ctx.Err() != nil {
		return "cancelled", out
	}
	if first == "unknown" || first == "timeout" || first == "" {
		return "unknown", out
	}
	return "error", out
}

// solve decides one script: first a short solo attempt by z3-new (most obligations are easy,
// and racing four solvers on each would only steal cores from the hard ones), then a race.
func solve(workDir, name, script string, timeoutS int) *SolveResult {
	file := filepath.Join(workDir, name+".smt2")
	_ = os.WriteFile(file, []byte(script), 0o644)
	res := &SolveResult{Status: "unknown", Bytes: len(script), Outputs: map[string]string{}}
	start := time.Now()
	quick := 4
	if timeoutS < quick {
		quick = timeoutS
	}
	// phase 1: z3-new and cvc5 side by side, briefly (each decides many goals the other does not)
	{
		ctx1, cancel1 := context.WithCancel(context.Background())
		type a1 struct{ solver, status string }
		ch1 := make(chan a1, 2)
		for _, sp := range solvers[:2] {
			sp := sp
			go func() {
				st, _ := runSolver(ctx1, sp, file, quick)
				ch1 <- a1{sp.name, st}
			}()
		}
		for i := 0; i < 2; i++ {
			a := <-ch1
			if a.status == "unsat" || a.status == "sat" {
				res.Status, res.Solver = a.status, a.solver
				res.Ms = time.Since(start).Milliseconds()
				cancel1()
				return res
			}
		}
		cancel1()
	}
	ctx, cancel := context.WithCancel(context.Background())
	defer cancel()
	type ans struct {
		solver, status, out string
	}
	ch := make(chan ans, len(solvers))
	for _, sp := range solvers {
		sp := sp
		go func() {
			s, o := runSolver(ctx, sp, file, timeoutS)
			ch <- ans{sp.name, s, o}
		}()
	}
	for i := 0; i < len(solvers); i++ {
		a := <-ch
		if a.status == "unsat" || a.status == "sat" {
			res.Status, res.Solver = a.status, a.solver
			res.Ms = time.Since(start).Milliseconds()
			cancel()
			go func(n int) {
				for j := 0; j < n; j++ {
					<-ch
				}
			}(len(solvers) - i - 1)
			return res
		}
		o := a.out
		if len(o) > 300 {
			o = o[:300]
		}
		res.Outputs[a.solver] = a.status + ": " + strings.TrimSpace(o)
	}
	res.Ms = time.Since(start).Milliseconds()
	return res
}

// dischargeAll solves all obligations in parallel. Proof obligations that no solver settles
// within the time limit are tried once more, a few at a time and with three times the limit (only when at most eight are left: more than that is no load problem): a
// loaded machine must not turn a slow proof into an alarm, and the extra time is spent only when
// something is already wrong or slow.
func dischargeAll(workDir string, obls []*Obligation, timeoutS int) {
	run := func(idx []int, par int, tmo int, tag string) {
		var wg sync.WaitGroup
		sem := make(chan struct{}, par)
		for _, i := range idx {
			o := obls[i]
			wg.Add(1)
			sem <- struct{}{}
			go func(i int, o *Obligation) {
				defer wg.Done()
				defer func() { <-sem }()
				if o.Cover {
					// vacuity guard: the full context must not be refutable; if the solvers cannot
					// settle that quickly, the context without its quantified assumptions must be satisfiable
					ct := tmo/4 + 1
					full := solve(workDir, fmt.Sprintf("o%04df%s", i, tag), o.vc.scriptOpt(o.Upto, o.Path, o.Goal, false, false), ct)
					if full.Status == "unsat" || full.Status == "sat" {
						o.Result = full
						o.Result.Script = filepath.Join(workDir, fmt.Sprintf("o%04df%s.smt2", i, tag))
						return
					}
					script := o.vc.scriptOpt(o.Upto, o.Path, o.Goal, false, true)
					o.Result = solve(workDir, fmt.Sprintf("o%04d%s", i, tag), script, ct)
					o.Result.Script = filepath.Join(workDir, fmt.Sprintf("o%04d%s.smt2", i, tag))
					return
				}
				script := o.vc.scriptOpt(o.Upto, o.Path, o.Goal, false, false)
				prev := o.Result
				if len(o.Cubes) >= 3 && os.Getenv("GOCV_NOCUBES") == "" && !o.NoRetry {
					// a short race on the whole query; if that does not settle it, a case split over the
					// unit's top-level branch conditions; only then the long race
					if tag == "" {
						short := tmo / 4
						r0 := solve(workDir, fmt.Sprintf("o%04d", i), script, short)
						if r0.Status == "unsat" || r0.Status == "sat" {
							o.Result = r0
							o.Result.Script = filepath.Join(workDir, fmt.Sprintf("o%04d.smt2", i))
							return
						}
					}
					if r := solveCubes(workDir, fmt.Sprintf("o%04d%s", i, tag), script, o.Cubes, tmo); r != nil {
						o.Result = r
						o.Result.Script = filepath.Join(workDir, fmt.Sprintf("o%04d.smt2", i))
						if prev != nil {
							o.Result.Ms += prev.Ms
						}
						return
					}
				}
				t := tmo
				if o.NoRetry {
					t = tmo/3 + 1 // a recorded finding: expected not to discharge
				}
				o.Result = solve(workDir, fmt.Sprintf("o%04d%s", i, tag), script, t)
				o.Result.Script = filepath.Join(workDir, fmt.Sprintf("o%04d%s.smt2", i, tag))
				if prev != nil {
					o.Result.Ms += prev.Ms
				}
			}(i, o)
		}
		wg.Wait()
	}
	var first []int
	for i, o := range obls {
		if o.Goal.S == "true" && !o.Cover {
			o.Result = &SolveResult{Status: "unsat", Solver: "syntactic"}
			continue
		}
		if o.Path.S == "false" && !o.Cover {
			o.Result = &SolveResult{Status: "unsat", Solver: "syntactic"}
			continue
		}
		first = append(first, i)
	}
	run(first, 12, timeoutS, "")
	var again []int
	for _, i := range first {
		o := obls[i]
		if !o.Cover && !o.NoRetry && o.Result != nil && o.Result.Status != "unsat" && o.Result.Status != "sat" {
			again = append(again, i)
		}
	}
	if len(again) > 0 && len(again) <= 8 && os.Getenv("GOCV_NORETRY") == "" {
		run(again, 4, 3*timeoutS, "r")
	}
}


// solveCubes: a short attempt on the whole query, then a case split over the truth values of the
// unit's top-level branch conditions (2^k cubes, k <= 6). The query is unsat iff every cube is;
// a cube that is sat makes the query sat. nil: undecided here, the caller goes on with the race.
func solveCubes(workDir, name, script string, cubes []Term, timeoutS int) *SolveResult {
	start := time.Now()
	file := filepath.Join(workDir, name+".smt2")
	_ = os.WriteFile(file, []byte(script), 0o644)
	// the whole query first, briefly
	{
		ctx, cancel := context.WithCancel(context.Background())
		type a1 struct{ solver, status string }
		ch := make(chan a1, 2)
		for _, sp := range solvers[:2] {
			sp := sp
			go func() { st, _ := runSolver(ctx, sp, file, 4); ch <- a1{sp.name, st} }()
		}
		for i := 0; i < 2; i++ {
			a := <-ch
			if a.status == "unsat" || a.status == "sat" {
				cancel()
				return &SolveResult{Status: a.status, Solver: a.solver, Ms: time.Since(start).Milliseconds(), Bytes: len(script), Outputs: map[string]string{}}
			}
		}
		cancel()
	}
	k := len(cubes)
	n := 1 << uint(k)
	per := timeoutS / 2
	if per < 10 {
		per = 10
	}
	type res struct{ status string }
	out := make(chan res, n)
	ctx, cancel := context.WithCancel(context.Background())
	defer cancel()
	sem := make(chan struct{}, 8)
	for m := 0; m < n; m++ {
		m := m
		go func() {
			sem <- struct{}{}
			defer func() { <-sem }()
			if ctx.Err() != nil {
				out <- res{"cancelled"}
				return
			}
			var extra strings.Builder
			for j := 0; j < k; j++ {
				if m&(1<<uint(j)) != 0 {
					extra.WriteString("(assert " + cubes[j].S + ")\n")
				} else {
					extra.WriteString("(assert (not " + cubes[j].S + "))\n")
				}
			}
			sc := strings.Replace(script, "(check-sat)\n", extra.String()+"(check-sat)\n", 1)
			f := filepath.Join(workDir, fmt.Sprintf("%s_c%02d.smt2", name, m))
			_ = os.WriteFile(f, []byte(sc), 0o644)
			// z3-new and cvc5 side by side on the cube
			c2, cancel2 := context.WithCancel(ctx)
			ch := make(chan string, 2)
			for _, sp := range solvers[:2] {
				sp := sp
				go func() { st, _ := runSolver(c2, sp, f, per); ch <- st }()
			}
			st := "unknown"
			for i := 0; i < 2; i++ {
				a := <-ch
				if a == "unsat" || a == "sat" {
					st = a
					break
				}
			}
			cancel2()
			_ = os.Remove(f)
			out <- res{st}
		}()
	}
	allUnsat := true
	for m := 0; m < n; m++ {
		r := <-out
		switch r.status {
		case "unsat":
		case "sat":
			cancel()
			return &SolveResult{Status: "sat", Solver: "cubes", Ms: time.Since(start).Milliseconds(), Bytes: len(script), Outputs: map[string]string{}}
		default:
			allUnsat = false
			cancel() // one undecided cube: no verdict from the split
		}
		if !allUnsat {
			break
		}
	}
	if allUnsat {
		return &SolveResult{Status: "unsat", Solver: fmt.Sprintf("cubes(%d)", n), Ms: time.Since(start).Milliseconds(), Bytes: len(script), Outputs: map[string]string{}}
	}
	return nil
}
