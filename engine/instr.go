package main

import (
	"os"
	"fmt"
	"go/token"
	"go/types"
	"strings"

	"golang.org/x/tools/go/ssa"
)

func snippetOf(v interface{ String() string }) string {
	s := v.String()
	if len(s) > 60 {
		s = s[:60]
	}
	return s
}

func (x *Exec) srcSnippet(pos token.Pos, fallback string) string {
	return fallback
}

func underlying(t types.Type) types.Type { return types.Unalias(t).Underlying() }

// ctorArg returns the i-th argument of a constructor application (looking through macros).
func ctorArg(t Term, ctor string, i int) (string, bool) {
	a := t.S
	for d := 0; d < 8; d++ {
		if def, ok := curDefs[a]; ok {
			a = def
			continue
		}
		break
	}
	pre := "(" + ctor + " "
	if !strings.HasPrefix(a, pre) {
		return "", false
	}
	pos := len(pre)
	for k := 0; ; k++ {
		end := skipSexpr(a, pos)
		if end <= pos {
			return "", false
		}
		if k == i {
			return strings.TrimSpace(a[pos:end]), true
		}
		pos = end
		if pos >= len(a)-1 {
			return "", false
		}
	}
}

func accessor(sort Sort, name, ctor string, i int, t Term) Term {
	if a, ok := ctorArg(t, ctor, i); ok {
		return Term{a, sort}
	}
	return app(sort, name, t)
}

func sLen(s Term) Term { return accessor(SInt, "s-len", "mk-slice", 2, s) }
func sCap(s Term) Term { return accessor(SInt, "s-cap", "mk-slice", 3, s) }
func sArr(s Term) Term { return accessor(SInt, "s-arr", "mk-slice", 0, s) }
// All slices have offset 0 in this model (A8/A9): re-slicing with a non-zero low bound copies.
func sOff(s Term) Term { return intLit(0) }
func mkSlice(arr, off, ln, cp Term) Term {
	return app(SSlice, "mk-slice", arr, off, ln, cp)
}
func iType(i Term) Term { return accessor(SInt, "i-type", "mk-iface", 0, i) }
func iVal(i Term) Term  { return accessor(SInt, "i-val", "mk-iface", 1, i) }

// execInstr executes one instruction; returns true if the block ended.
func (x *Exec) execInstr(fr *Frame, b *ssa.BasicBlock, st *State, ins ssa.Instruction, out map[edgeKey]*State) bool {
	vc := x.vc
	switch in := ins.(type) {
	case *ssa.DebugRef:
		return false

	case *ssa.Alloc:
		et := derefType(in.Type())
		if !in.Heap {
			k := cellKey{fr.id, in}
			st.cells[k] = vc.zero(et)
			st.written[fmt.Sprintf("c:%d:%p", k.fr, k.a)] = true
			fr.lvals[in] = &LVal{cell: &k, rootT: et, typ: et}
			return false
		}
		ref := x.alloc(st, et, vc.zero(et))
		fr.regs[in] = ref
		return false

	case *ssa.Store:
		lv := x.addrOf(fr, st, in.Addr)
		x.derefCheck(fr, st, lv, in.Pos(), in.Addr.Name())
		v := x.val(fr, st, in.Val)
		x.frameCheckStore(fr, st, lv, in.Pos())
		x.store(st, lv, v)
		return false

	case *ssa.UnOp:
		switch in.Op {
		case token.MUL:
			lv := x.addrOf(fr, st, in.X)
			x.derefCheck(fr, st, lv, in.Pos(), in.X.Name())
			fr.regs[in] = x.load(st, lv)
		case token.NOT:
			fr.regs[in] = not(x.val(fr, st, in.X))
		case token.SUB:
			v := x.val(fr, st, in.X)
			if v.Sort == SReal {
				fr.regs[in] = app(SReal, "-", v)
			} else {
				fr.regs[in] = app(SInt, "-", v)
			}
		default:
			x.unsupportedValue(fr, st, in, "unary "+in.Op.String())
		}
		return false

	case *ssa.BinOp:
		r := x.binop(fr, st, in)
		// integer arithmetic results become constants with a defining equation (not macros):
		// index terms then have the shape (+ offset c), which quantifier patterns can match.
		if r.Sort == SInt && vc.noName == 0 && strings.HasPrefix(r.S, "(") {
			switch in.Op {
			case token.ADD, token.SUB, token.MUL:
				c := vc.fresh("ar", SInt)
				vc.asserts = append(vc.asserts, "(= "+c.S+" "+r.S+")")
				r = c
			}
		}
		fr.regs[in] = r
		return false

	case *ssa.FieldAddr:
		base := x.addrOf(fr, st, in.X)
		stT := derefType(in.X.Type())
		si := vc.structInfoOf(stT)
		nl := *base
		nl.path = append(append([]pathElem{}, base.path...), pathElem{field: in.Field, owner: stT})
		nl.typ = si.ftypes[in.Field]
		fr.lvals[in] = &nl
		// a FieldAddr on a nil pointer panics only when dereferenced in Go's
		// semantics for field 0... in fact &p.f panics for nil p: check here.
		x.derefCheck(fr, st, base, in.Pos(), in.X.Name())
		return false

	case *ssa.IndexAddr:
		idx := x.val(fr, st, in.Index)
		switch xt := underlying(in.X.Type()).(type) {
		case *types.Slice:
			s := x.val(fr, st, in.X)
			x.safety(fr, "bounds", snippetOf(in), st, and(le(intLit(0), idx), lt(idx, sLen(s))), in.Pos())
			fr.lvals[in] = &LVal{ptr: vc.name("arr", sArr(s)), rootT: xt.Elem(), arr: true,
				path: []pathElem{{isIdx: true, idx: vc.name("ix", add(sOff(s), idx)), owner: xt.Elem()}}, typ: xt.Elem()}
		case *types.Pointer:
			at, ok := isArrayType(xt.Elem())
			if !ok {
				panic(engErr("IndexAddr on %s", xt))
			}
			base := x.addrOf(fr, st, in.X)
			x.derefCheck(fr, st, base, in.Pos(), in.X.Name())
			x.safety(fr, "bounds", snippetOf(in), st, and(le(intLit(0), idx), lt(idx, intLit(at.Len()))), in.Pos())
			nl := *base
			if base.arr && len(base.path) == 0 {
				nl.path = []pathElem{{isIdx: true, idx: idx, owner: at.Elem()}}
			} else {
				nl.path = append(append([]pathElem{}, base.path...), pathElem{isIdx: true, idx: idx, owner: xt.Elem()})
			}
			nl.typ = at.Elem()
			fr.lvals[in] = &nl
		default:
			panic(engErr("IndexAddr on %s", in.X.Type()))
		}
		return false

	case *ssa.Field:
		s := x.val(fr, st, in.X)
		si := vc.structInfoOf(in.X.Type())
		fr.regs[in] = vc.field(si, s, in.Field)
		x.wf(st, fr.regs[in], si.ftypes[in.Field])
		return false

	case *ssa.Index:
		idx := x.val(fr, st, in.Index)
		switch xt := underlying(in.X.Type()).(type) {
		case *types.Array:
			a := x.val(fr, st, in.X)
			x.safety(fr, "bounds", snippetOf(in), st, and(le(intLit(0), idx), lt(idx, intLit(xt.Len()))), in.Pos())
			fr.regs[in] = sel(a, idx, vc.sortOf(xt.Elem()))
		case *types.Basic: // string
			s := x.val(fr, st, in.X)
			x.safety(fr, "bounds", snippetOf(in), st, and(le(intLit(0), idx), lt(idx, app(SInt, "str.len", s))), in.Pos())
			fr.regs[in] = app(SInt, "str.to_code", app(SString, "str.at", s, idx))
		default:
			panic(engErr("Index on %s", in.X.Type()))
		}
		return false

	case *ssa.Slice:
		x.sliceOp(fr, st, in)
		return false

	case *ssa.MakeInterface:
		xt := in.X.Type()
		v := x.val(fr, st, in.X)
		fr.regs[in] = vc.name("if", app(SIface, "mk-iface", vc.typeID(xt), vc.box(xt, v)))
		x.noteImplements(xt)
		return false

	case *ssa.ChangeInterface:
		fr.regs[in] = x.val(fr, st, in.X)
		return false

	case *ssa.ChangeType:
		v := x.val(fr, st, in.X)
		from, to := vc.sortOf(in.X.Type()), vc.sortOf(in.Type())
		if from != to {
			// struct conversion between distinct named types with identical underlying types
			sf, st2 := vc.structInfoOf(in.X.Type()), vc.structInfoOf(in.Type())
			args := make([]Term, len(sf.fields))
			for i := range sf.fields {
				args[i] = vc.field(sf, v, i)
			}
			if len(args) == 0 {
				v = Term{st2.ctor, st2.sort}
			} else {
				v = app(st2.sort, st2.ctor, args...)
			}
		}
		fr.regs[in] = v
		return false

	case *ssa.Convert:
		fr.regs[in] = x.convert(fr, st, in)
		return false

	case *ssa.TypeAssert:
		x.typeAssert(fr, st, in)
		return false

	case *ssa.Extract:
		tup, ok := fr.tuples[in.Tuple]
		if !ok {
			panic(engErr("extract from unknown tuple %s", in.Tuple.Name()))
		}
		fr.regs[in] = tup[in.Index]
		return false

	case *ssa.MakeMap:
		mt := underlying(in.Type()).(*types.Map)
		d, _, l := vc.mapHeaps(mt)
		ref := x.vc.fresh("mref", SInt)
		vc.assert(eq(ref, add(st.top, intLit(1))))
		st.top = ref
		st.written["top"] = true
		x.setHeap(st, d, store(x.heap(st, d), ref, Term{fmt.Sprintf("((as const %s) false)", arraySort(vc.sortOf(mt.Key()), SBool)), ""}))
		x.setHeap(st, l, store(x.heap(st, l), ref, intLit(0)))
		fr.regs[in] = ref
		return false

	case *ssa.MapUpdate:
		mt := underlying(in.Map.Type()).(*types.Map)
		m := x.val(fr, st, in.Map)
		k := x.val(fr, st, in.Key)
		v := x.val(fr, st, in.Value)
		x.safety(fr, "nilmap", snippetOf(in), st, not(eq(m, intLit(0))), in.Pos())
		if fr.spec {
			panic(engErr("ghost code updates a map"))
		}
		x.frameCheckRef(fr, st, m, "map", in.Pos())
		x.mapStore(st, mt, m, k, v)
		return false

	case *ssa.Lookup:
		x.lookup(fr, st, in)
		return false

	case *ssa.Range:
		x.rangeInit(fr, st, in)
		return false

	case *ssa.Next:
		x.next(fr, st, in)
		return false

	case *ssa.MakeSlice:
		et := underlying(in.Type()).(*types.Slice).Elem()
		ln := x.val(fr, st, in.Len)
		cp := x.val(fr, st, in.Cap)
		x.safety(fr, "makeslice", snippetOf(in), st, and(le(intLit(0), ln), le(ln, cp)), in.Pos())
		arrT := types.NewArray(et, 0)
		var initArr Term
		if ln.S == "0" && vc.noName == 0 {
			// make([]T, 0, n): no element is observable before it is appended; an unconstrained
			// array keeps the VC free of constant-array terms over named struct values (cvc5 rejects those)
			initArr = vc.fresh("mk", arraySort(SInt, vc.sortOf(et)))
		} else {
			initArr = vc.zero(types.NewArray(et, 0))
		}
		ref := x.alloc(st, arrT, initArr)
		fr.regs[in] = vc.name("sl", mkSlice(ref, intLit(0), ln, cp))
		return false

	case *ssa.MakeClosure:
		fn := in.Fn.(*ssa.Function)
		c := &closure{fn: fn, fr: fr}
		for _, bnd := range in.Bindings {
			if lv, ok := fr.lvals[bnd]; ok {
				c.boundLV = append(c.boundLV, lv)
				c.bound = append(c.bound, Term{})
			} else {
				c.boundLV = append(c.boundLV, nil)
				c.bound = append(c.bound, x.val(fr, st, bnd))
			}
		}
		id := vc.fresh("clo", SInt)
		if vc.noName == 0 {
			vc.assert(lt(intLit(0), id))
		}
		x.closByTerm()[id.S] = c
		fr.regs[in] = id
		fr.clos[in] = c
		return false

	case *ssa.Call:
		x.call(fr, st, in)
		return false

	case *ssa.Defer:
		fr.defers = append(fr.defers, deferred{in, st.reach})
		return false

	case *ssa.RunDefers:
		for i := len(fr.defers) - 1; i >= 0; i-- {
			d := fr.defers[i]
			// executed only if the defer statement was reached; approximated: run unconditionally
			// when the defer dominates; otherwise out of fragment.
			if d.reach.S != fr.entry.reach.S && d.reach.S != st.reach.S {
				x.note("conditional defer in %s executed unconditionally at return (over-approximation of effects)", shortFn(fr.fn))
			}
			x.callCommon(fr, st, d.call, &d.call.Call, nil)
		}
		return false

	case *ssa.Return:
		vals := make([]Term, len(in.Results))
		for i, r := range in.Results {
			vals[i] = x.val(fr, st, r)
		}
		fr.returns = append(fr.returns, retInfo{st, vals})
		if fr == x.root {
			x.atReturn(fr, st, vals, in.Pos())
		}
		return true

	case *ssa.Jump:
		succ := b.Succs[0]
		x.isBackEdgeCheck(fr, b, succ, st)
		out[edgeKey{b, succ}] = st
		return true

	case *ssa.If:
		c := x.val(fr, st, in.Cond)
		c = vc.name("br", c)
		if fr == x.root && x.dry == 0 && !fr.spec && vc.noName == 0 && c.S != "true" && c.S != "false" && !inLoop(fr.fn, b) {
			x.branches = append(x.branches, branchCond{c, len(vc.asserts)})
		}
		t, f := st, st.clone()
		t.reach = vc.name("r", and(st.reach, c))
		f.reach = vc.name("r", and(f.reach, not(c)))
		x.isBackEdgeCheck(fr, b, b.Succs[0], t)
		x.isBackEdgeCheck(fr, b, b.Succs[1], f)
		if b.Succs[0] == b.Succs[1] {
			out[edgeKey{b, b.Succs[0]}] = x.mergeStates([]*State{t, f})
		} else {
			out[edgeKey{b, b.Succs[0]}] = t
			out[edgeKey{b, b.Succs[1]}] = f
		}
		return true

	case *ssa.Panic:
		x.safety(fr, "panic-unreachable", snippetOf(in), st, tFalse, in.Pos())
		return true

	case *ssa.Go, *ssa.Select, *ssa.Send, *ssa.MakeChan:
		panic(engErr("out-of-fragment: %T in %s", ins, fr.fn.Name()))
	}
	panic(engErr("out-of-fragment: instruction %T (%s) in %s", ins, ins, fr.fn.Name()))
}

// inLoop: the block belongs to some natural loop of the function.
func inLoop(fn *ssa.Function, b *ssa.BasicBlock) bool {
	cfg := cfgOf(fn)
	for h := range cfg.headers {
		for _, lb := range cfg.loopBlocks(h) {
			if lb == b {
				return true
			}
		}
	}
	return false
}

func (x *Exec) unsupportedValue(fr *Frame, st *State, v ssa.Value, what string) {
	x.note("imprecise: %s in %s treated as unconstrained", what, shortFn(fr.fn))
	t := x.freshOf(st, "hv", v.Type())
	fr.regs[v] = t
}

func (x *Exec) freshOf(st *State, prefix string, t types.Type) Term {
	if x.vc.noName > 0 {
		panic(engErr("unconstrained value inside quantifier body"))
	}
	c := x.vc.fresh(prefix, x.vc.sortOf(t))
	x.wf(st, c, t)
	if st != nil {
		switch underlying(t).(type) {
		case *types.Pointer, *types.Map:
			x.vc.assert(le(c, st.top))
		case *types.Slice:
			x.vc.assert(le(sArr(c), st.top))
		}
	}
	return c
}

// safety records a safety obligation if the frame is under a safety contract.
func (x *Exec) safety(fr *Frame, kind, snippet string, st *State, goal Term, pos token.Pos) {
	if fr.spec || !fr.safety {
		return
	}
	x.oblige(fr, kind, snippet, st, goal, pos)
	// execution continues only if the check passed
	if goal.S != "true" && os.Getenv("GOCV_NOSAFEASSUME") == "" {
		st.reach = and(st.reach, goal)
	}
}

func (x *Exec) derefCheck(fr *Frame, st *State, lv *LVal, pos token.Pos, what string) {
	if lv.cell != nil || lv.global != nil {
		return
	}
	if fr.spec || !fr.safety {
		return
	}
	if isLiteral(lv.ptr) && lv.ptr.S != "0" {
		return
	}
	if strings.HasPrefix(lv.ptr.S, "ref!") || strings.HasPrefix(lv.ptr.S, "mref!") {
		return // fresh allocations are never nil
	}
	x.oblige(fr, "nilderef", what, st, not(eq(lv.ptr, intLit(0))), pos)
	if os.Getenv("GOCV_NOSAFEASSUME") == "" {
		st.reach = and(st.reach, not(eq(lv.ptr, intLit(0))))
	}
}

func (x *Exec) binop(fr *Frame, st *State, in *ssa.BinOp) Term {
	a := x.val(fr, st, in.X)
	b := x.val(fr, st, in.Y)
	t := underlying(in.X.Type())
	switch in.Op {
	case token.EQL, token.NEQ:
		var e Term
		switch t.(type) {
		case *types.Slice:
			// only comparison with nil is legal
			if isNilConst(in.Y) {
				e = eq(sArr(a), intLit(0))
			} else {
				e = eq(sArr(b), intLit(0))
			}
		default:
			if a.Sort != b.Sort {
				// interface vs concrete comparison does not reach SSA (operands are converted)
				panic(engErr("comparison of different sorts %s %s", a.Sort, b.Sort))
			}
			e = eq(a, b)
		}
		if in.Op == token.NEQ {
			return not(e)
		}
		return e
	case token.LSS, token.LEQ, token.GTR, token.GEQ:
		if a.Sort == SString {
			switch in.Op {
			case token.LSS:
				return app(SBool, "str.<", a, b)
			case token.LEQ:
				return app(SBool, "str.<=", a, b)
			case token.GTR:
				return app(SBool, "str.<", b, a)
			default:
				return app(SBool, "str.<=", b, a)
			}
		}
		op := map[token.Token]string{token.LSS: "<", token.LEQ: "<=", token.GTR: ">", token.GEQ: ">="}[in.Op]
		return app(SBool, op, a, b)
	case token.ADD:
		if a.Sort == SString {
			return app(SString, "str.++", a, b)
		}
		return app(a.Sort, "+", a, b)
	case token.SUB:
		return app(a.Sort, "-", a, b)
	case token.MUL:
		return app(a.Sort, "*", a, b)
	case token.QUO:
		if a.Sort == SReal {
			return app(SReal, "/", a, b)
		}
		x.safety(fr, "div0", snippetOf(in), st, not(eq(b, intLit(0))), in.Pos())
		// Go truncates toward zero
		q := app(SInt, "div", app(SInt, "abs", a), app(SInt, "abs", b))
		return ite(eq(app(SBool, "<", a, intLit(0)), app(SBool, "<", b, intLit(0))), q, app(SInt, "-", q))
	case token.REM:
		x.safety(fr, "div0", snippetOf(in), st, not(eq(b, intLit(0))), in.Pos())
		m := app(SInt, "mod", app(SInt, "abs", a), app(SInt, "abs", b))
		return ite(app(SBool, "<", a, intLit(0)), app(SInt, "-", m), m)
	case token.AND, token.OR, token.XOR, token.SHL, token.SHR, token.AND_NOT:
		if a.Sort == SBool {
			switch in.Op {
			case token.AND:
				return and(a, b)
			case token.OR:
				return or(a, b)
			}
		}
		return x.bitop(fr, st, in, a, b)
	}
	panic(engErr("binop %s", in.Op))
}

// bitop: exact for single-bit masks on non-negative values, otherwise
// uninterpreted (deterministic) with range facts.
func (x *Exec) bitop(fr *Frame, st *State, in *ssa.BinOp, a, b Term) Term {
	pow2 := func(t Term) (int64, bool) {
		var n int64
		if _, err := fmt.Sscanf(t.S, "%d", &n); err != nil || t.S[0] == '(' {
			return 0, false
		}
		if n > 0 && n&(n-1) == 0 {
			return n, true
		}
		return 0, false
	}
	hasBit := func(v Term, p int64) Term {
		return eq(app(SInt, "mod", app(SInt, "div", v, intLit(p)), intLit(2)), intLit(1))
	}
	switch in.Op {
	case token.OR:
		if p, ok := pow2(b); ok {
			return ite(hasBit(a, p), a, add(a, intLit(p)))
		}
		if p, ok := pow2(a); ok {
			return ite(hasBit(b, p), b, add(b, intLit(p)))
		}
	case token.AND:
		if p, ok := pow2(b); ok {
			return ite(hasBit(a, p), intLit(p), intLit(0))
		}
		if p, ok := pow2(a); ok {
			return ite(hasBit(b, p), intLit(p), intLit(0))
		}
	case token.SHL:
		var n int64
		if _, err := fmt.Sscanf(b.S, "%d", &n); err == nil && b.S[0] != '(' && n < 62 {
			return app(SInt, "*", a, intLit(1<<uint(n)))
		}
	}
	name := "bit_" + map[token.Token]string{token.AND: "and", token.OR: "or", token.XOR: "xor", token.SHL: "shl", token.SHR: "shr", token.AND_NOT: "andnot"}[in.Op]
	x.vc.declareFun(name, []Sort{SInt, SInt}, SInt)
	x.note("bit operation %s modelled as uninterpreted function", in.Op)
	r := app(SInt, name, a, b)
	return r
}

func isNilConst(v ssa.Value) bool {
	c, ok := v.(*ssa.Const)
	return ok && c.Value == nil
}

func (x *Exec) sliceOp(fr *Frame, st *State, in *ssa.Slice) {
	vc := x.vc
	var lo, hi, mx Term
	if in.Low != nil {
		lo = x.val(fr, st, in.Low)
	} else {
		lo = intLit(0)
	}
	switch xt := underlying(in.X.Type()).(type) {
	case *types.Basic: // string
		s := x.val(fr, st, in.X)
		ln := app(SInt, "str.len", s)
		if in.High != nil {
			hi = x.val(fr, st, in.High)
		} else {
			hi = ln
		}
		x.safety(fr, "slice", snippetOf(in), st, and(le(intLit(0), lo), le(lo, hi), le(hi, ln)), in.Pos())
		fr.regs[in] = app(SString, "str.substr", s, lo, sub(hi, lo))
	case *types.Slice:
		s := x.val(fr, st, in.X)
		if in.High != nil {
			hi = x.val(fr, st, in.High)
		} else {
			hi = sLen(s)
		}
		if in.Max != nil {
			mx = x.val(fr, st, in.Max)
		} else {
			mx = sCap(s)
		}
		x.safety(fr, "slice", snippetOf(in), st, and(le(intLit(0), lo), le(lo, hi), le(hi, mx), le(mx, sCap(s))), in.Pos())
		if lo.S == "0" {
			fr.regs[in] = vc.name("sl", mkSlice(sArr(s), intLit(0), hi, mx))
		} else {
			// non-zero low bound: the view is copied into a fresh array (aliasing with s is lost: A9)
			x.note("re-slice with non-zero low bound in %s modelled as a copy (writes through it are not seen by the original)", shortFn(fr.fn))
			et := xt.Elem()
			h := vc.arrHeap(et)
			as := arraySort(SInt, vc.sortOf(et))
			oldA := vc.name("rs", sel(x.heap(st, h), sArr(s), as))
			na := vc.fresh("rsl", as)
			if vc.noName == 0 {
				for j := int64(0); j < 4; j++ {
					vc.assert(eq(sel(na, intLit(j), vc.sortOf(et)), sel(oldA, add(lo, intLit(j)), vc.sortOf(et))))
				}
				vc.assert(Term{fmt.Sprintf("(forall ((i Int)) (! (=> (<= 0 i) (= (select %s i) (select %s (+ %s i)))) :pattern ((select %s i))))", na.S, oldA.S, lo.S, na.S), SBool})
			}
			ref := x.alloc(st, types.NewArray(et, 0), na)
			fr.regs[in] = vc.name("sl", ite(eq(sArr(s), intLit(0)), Term{"(mk-slice 0 0 0 0)", SSlice}, mkSlice(ref, intLit(0), sub(hi, lo), sub(mx, lo))))
		}
		_ = xt
	case *types.Pointer:
		at, ok := isArrayType(xt.Elem())
		if !ok {
			panic(engErr("slice of %s", xt))
		}
		n := intLit(at.Len())
		if in.High != nil {
			hi = x.val(fr, st, in.High)
		} else {
			hi = n
		}
		if in.Max != nil {
			mx = x.val(fr, st, in.Max)
		} else {
			mx = n
		}
		base := x.addrOf(fr, st, in.X)
		if !(base.arr && len(base.path) == 0 && base.cell == nil && base.global == nil) {
			panic(engErr("slicing an array that is not a heap object in %s", fr.fn.Name()))
		}
		x.safety(fr, "slice", snippetOf(in), st, and(le(intLit(0), lo), le(lo, hi), le(hi, mx), le(mx, n)), in.Pos())
		if lo.S != "0" {
			panic(engErr("slicing an array with a non-zero low bound in %s", fr.fn.Name()))
		}
		fr.regs[in] = vc.name("sl", mkSlice(base.ptr, intLit(0), hi, mx))
	default:
		panic(engErr("slice of %s", in.X.Type()))
	}
}

func (x *Exec) convert(fr *Frame, st *State, in *ssa.Convert) Term {
	vc := x.vc
	v := x.val(fr, st, in.X)
	from, to := underlying(in.X.Type()), underlying(in.Type())
	fs, ts := vc.sortOf(in.X.Type()), vc.sortOf(in.Type())
	fb, fok := from.(*types.Basic)
	tb, tok := to.(*types.Basic)
	switch {
	case fs == SInt && ts == SInt && fok && tok:
		// integer conversions: identity when the target range contains the source range (A1 otherwise)
		flo, fhi := intRange(fb)
		tlo, thi := intRange(tb)
		if !(cmpBig(tlo, flo) <= 0 && cmpBig(fhi, thi) <= 0) {
			x.safety(fr, "convert-range", snippetOf(in), st, and(le(bigIntLit(tlo), v), le(v, bigIntLit(thi))), in.Pos())
			if !fr.safety {
				x.note("narrowing integer conversion treated as identity (A1) in %s", shortFn(fr.fn))
			}
		}
		return v
	case fs == SInt && ts == SReal:
		return app(SReal, "to_real", v)
	case fs == SReal && ts == SInt:
		tr := app(SInt, "to_int", v)
		return ite(app(SBool, ">=", v, Term{"0.0", SReal}), tr, app(SInt, "-", app(SInt, "to_int", app(SReal, "-", v))))
	case fs == SReal && ts == SReal, fs == SString && ts == SString, fs == SBool && ts == SBool:
		return v
	case fs == SInt && ts == SString && fok: // string(rune)
		vc.declareFun("string_of_rune", []Sort{SInt}, SString)
		r := app(SString, "string_of_rune", v)
		if vc.noName == 0 {
			vc.assert(implies(and(le(intLit(0), v), lt(v, intLit(128))), eq(r, app(SString, "str.from_code", v))))
		}
		return r
	case fs == SString && ts == SSlice: // []byte(s) / []rune(s)
		et := to.(*types.Slice).Elem()
		if b, ok := underlying(et).(*types.Basic); ok && b.Kind() == types.Uint8 {
			ref := vc.fresh("bytes", SInt)
			vc.assert(eq(ref, add(st.top, intLit(1))))
			st.top = ref
			st.written["top"] = true
			h := vc.arrHeap(et)
			arr := sel(x.heap(st, h), ref, arraySort(SInt, SInt))
			ln := app(SInt, "str.len", v)
			vc.assert(Term{fmt.Sprintf("(forall ((i Int)) (! (=> (and (<= 0 i) (< i %s)) (= (select %s i) (str.to_code (str.at %s i)))) :pattern ((select %s i))))", ln.S, arr.S, v.S, arr.S), SBool})
			return mkSlice(ref, intLit(0), ln, ln)
		}
		// []rune(s): uninterpreted decoder
		ref := vc.fresh("runes", SInt)
		vc.assert(eq(ref, add(st.top, intLit(1))))
		st.top = ref
		st.written["top"] = true
		vc.declareFun("rune_count", []Sort{SString}, SInt)
		n := app(SInt, "rune_count", v)
		vc.assert(and(le(intLit(0), n), le(n, app(SInt, "str.len", v)), implies(lt(intLit(0), app(SInt, "str.len", v)), lt(intLit(0), n))))
		return mkSlice(ref, intLit(0), n, n)
	case fs == SSlice && ts == SString:
		vc.declareFun("string_of_slice", []Sort{arraySort(SInt, SInt), SInt, SInt}, SString)
		et := from.(*types.Slice).Elem()
		h := vc.arrHeap(et)
		arr := sel(x.heap(st, h), sArr(v), arraySort(SInt, vc.sortOf(et)))
		if vc.sortOf(et) != SInt {
			panic(engErr("string(slice of %s)", et))
		}
		r := app(SString, "string_of_slice", arr, sOff(v), sLen(v))
		x.note("string([]byte/[]rune) modelled as uninterpreted function of contents")
		return r
	}
	if fs == ts {
		return v
	}
	panic(engErr("conversion %s -> %s", in.X.Type(), in.Type()))
}

func cmpBig(a, b string) int {
	na, nb := strings.HasPrefix(a, "-"), strings.HasPrefix(b, "-")
	if na != nb {
		if na {
			return -1
		}
		return 1
	}
	aa, bb := strings.TrimPrefix(a, "-"), strings.TrimPrefix(b, "-")
	c := 0
	if len(aa) != len(bb) {
		if len(aa) < len(bb) {
			c = -1
		} else {
			c = 1
		}
	} else {
		c = strings.Compare(aa, bb)
	}
	if na {
		return -c
	}
	return c
}

// noteImplements records, for a concrete type boxed into an interface, which
// of the interface types seen in type assertions it implements.
func (x *Exec) noteImplements(t types.Type) {}

func (x *Exec) typeAssert(fr *Frame, st *State, in *ssa.TypeAssert) {
	vc := x.vc
	v := x.val(fr, st, in.X)
	var ok, res Term
	if it, isIface := underlying(in.AssertedType).(*types.Interface); isIface {
		if it.NumMethods() == 0 {
			ok = not(eq(iType(v), intLit(0)))
		} else {
			name := "impl_" + mangle(shortTypeKey(in.AssertedType))
			vc.declareFun(name, []Sort{SInt}, SBool)
			ok = and(not(eq(iType(v), intLit(0))), app(SBool, name, iType(v)))
			x.implFacts(in.AssertedType, it, name)
		}
		res = v
	} else {
		ok = eq(iType(v), vc.typeID(in.AssertedType))
		res = vc.unbox(in.AssertedType, iVal(v))
	}
	if in.CommaOk {
		zero := vc.zero(in.AssertedType)
		fr.tuples[in] = []Term{vc.name("ta", ite(ok, res, zero)), vc.name("ok", ok)}
		return
	}
	x.safety(fr, "assert-type", snippetOf(in), st, ok, in.Pos())
	fr.regs[in] = vc.name("ta", res)
	x.wf(st, fr.regs[in], in.AssertedType)
}

// implFacts asserts impl_I(typeid T) for every concrete type known so far.
func (x *Exec) implFacts(named types.Type, it *types.Interface, fname string) {
	for id, t := range x.vc.typeByID {
		key := fmt.Sprintf("impl:%s:%d", fname, id)
		if x.vc.declared[key] {
			continue
		}
		x.vc.declared[key] = true
		f := app(SBool, fname, intLit(int64(id)))
		if types.Implements(t, it) {
			x.vc.decls = append(x.vc.decls, "(assert "+f.S+")")
		} else {
			x.vc.decls = append(x.vc.decls, "(assert (not "+f.S+"))")
		}
	}
}

// ---------------------------------------------------------------------------
// maps

func (x *Exec) mapStore(st *State, mt *types.Map, m, k, v Term) {
	vc := x.vc
	d, vh, l := vc.mapHeaps(mt)
	ks, vs := vc.sortOf(mt.Key()), vc.sortOf(mt.Elem())
	dom := sel(x.heap(st, d), m, arraySort(ks, SBool))
	vals := sel(x.heap(st, vh), m, arraySort(ks, vs))
	ln := sel(x.heap(st, l), m, SInt)
	had := vc.name("had", sel(dom, k, SBool))
	if !isFreshRefTerm(m) {
		st.markDirty(d.name)
		st.markDirty(vh.name)
		st.markDirty(l.name)
	}
	x.setHeap(st, l, store(x.heap(st, l), m, ite(had, ln, add(ln, intLit(1)))))
	x.setHeap(st, d, store(x.heap(st, d), m, store(dom, k, tTrue)))
	x.setHeap(st, vh, store(x.heap(st, vh), m, store(vals, k, v)))
}

func (x *Exec) mapDom(st *State, mt *types.Map, m Term) Term {
	d, _, _ := x.vc.mapHeaps(mt)
	return sel(x.heap(st, d), m, arraySort(x.vc.sortOf(mt.Key()), SBool))
}

func (x *Exec) mapHas(st *State, mt *types.Map, m, k Term) Term {
	return and(not(eq(m, intLit(0))), sel(x.mapDom(st, mt, m), k, SBool))
}

func (x *Exec) mapGet(st *State, mt *types.Map, m, k Term) Term {
	_, vh, _ := x.vc.mapHeaps(mt)
	ks, vs := x.vc.sortOf(mt.Key()), x.vc.sortOf(mt.Elem())
	return sel(sel(x.heap(st, vh), m, arraySort(ks, vs)), k, vs)
}

func (x *Exec) mapLen(st *State, mt *types.Map, m Term) Term {
	_, _, l := x.vc.mapHeaps(mt)
	ln := sel(x.heap(st, l), m, SInt)
	return ite(eq(m, intLit(0)), intLit(0), ln)
}

func (x *Exec) lookup(fr *Frame, st *State, in *ssa.Lookup) {
	vc := x.vc
	switch xt := underlying(in.X.Type()).(type) {
	case *types.Map:
		m := x.val(fr, st, in.X)
		k := x.val(fr, st, in.Index)
		has := vc.name("has", x.mapHas(st, xt, m, k))
		v := vc.name("mv", ite(has, x.mapGet(st, xt, m, k), vc.zero(xt.Elem())))
		x.wf(st, v, xt.Elem())
		if in.CommaOk {
			fr.tuples[in] = []Term{v, has}
		} else {
			fr.regs[in] = v
		}
	case *types.Basic:
		s := x.val(fr, st, in.X)
		idx := x.val(fr, st, in.Index)
		x.safety(fr, "bounds", snippetOf(in), st, and(le(intLit(0), idx), lt(idx, app(SInt, "str.len", s))), in.Pos())
		fr.regs[in] = app(SInt, "str.to_code", app(SString, "str.at", s, idx))
	default:
		panic(engErr("lookup on %s", in.X.Type()))
	}
}

// ---------------------------------------------------------------------------
// range / next

func (x *Exec) rangeInit(fr *Frame, st *State, in *ssa.Range) {
	vc := x.vc
	fr.ranges = append(fr.ranges, in)
	switch xt := underlying(in.X.Type()).(type) {
	case *types.Map:
		m := x.val(fr, st, in.X)
		fr.regs[in] = m
		ks := vc.sortOf(xt.Key())
		st.iters[cellKey2{fr.id, in}] = Term{fmt.Sprintf("((as const %s) false)", arraySort(ks, SBool)), arraySort(ks, SBool)}
		st.written[fmt.Sprintf("i:%d:%p", fr.id, in)] = true
	case *types.Basic: // string: position counter
		s := x.val(fr, st, in.X)
		fr.regs[in] = s
		st.iters[cellKey2{fr.id, in}] = intLit(0)
		st.written[fmt.Sprintf("i:%d:%p", fr.id, in)] = true
	default:
		panic(engErr("range over %s", in.X.Type()))
	}
}

func (x *Exec) next(fr *Frame, st *State, in *ssa.Next) {
	vc := x.vc
	rng := in.Iter.(*ssa.Range)
	key := cellKey2{fr.id, rng}
	cur, ok := st.iters[key]
	if !ok {
		panic(engErr("iterator state missing"))
	}
	if in.IsString {
		s := fr.regs[rng]
		ln := app(SInt, "str.len", s)
		okT := vc.name("more", lt(cur, ln))
		if vc.noName > 0 {
			panic(engErr("string range inside quantifier"))
		}
		w := vc.fresh("rw", SInt)
		r := vc.fresh("rune", SInt)
		vc.assert(implies(okT, and(le(intLit(1), w), le(w, intLit(4)), le(add(cur, w), ln), le(intLit(0), r), le(r, intLit(0x10FFFF)))))
		c0 := app(SInt, "str.to_code", app(SString, "str.at", s, cur))
		vc.assert(implies(okT, and(
			eq(lt(c0, intLit(128)), lt(r, intLit(128))),
			implies(lt(c0, intLit(128)), and(eq(w, intLit(1)), eq(r, c0))))))
		// UTF-8: for a valid string the decoded rune re-encodes to exactly the bytes consumed
		// (utf8.ValidString is the uninterpreted predicate ghost code can name); an invalid byte
		// decodes to U+FFFD, width 1
		vc.declareFun("string_of_rune", []Sort{SInt}, SString)
		vc.declareFun("uf_unicode!utf8.ValidString_0", []Sort{SString}, SBool)
		vc.assert(implies(and(okT, app(SBool, "uf_unicode!utf8.ValidString_0", s)),
			eq(app(SString, "string_of_rune", r), app(SString, "str.substr", s, cur, w))))
		st.iters[key] = vc.name("pos", ite(okT, add(cur, w), cur))
		st.written[fmt.Sprintf("i:%d:%p", fr.id, rng)] = true
		fr.tuples[in] = []Term{okT, cur, r}
		return
	}
	mt := underlying(rng.X.Type()).(*types.Map)
	m := fr.regs[rng]
	ks, vs := vc.sortOf(mt.Key()), vc.sortOf(mt.Elem())
	if vc.noName > 0 {
		panic(engErr("map range inside quantifier"))
	}
	okT := vc.fresh("more", SBool)
	k := vc.fresh("key", ks)
	dom := x.mapDom(st, mt, m)
	vc.assert(implies(okT, and(not(eq(m, intLit(0))), sel(dom, k, SBool), not(sel(cur, k, SBool)))))
	// exhaustion: when the iterator is done every key has been visited
	vc.assert(implies(not(okT), Term{fmt.Sprintf("(or (= %s 0) (forall ((k %s)) (! (=> (select %s k) (select %s k)) :pattern ((select %s k)))))", m.S, ks, dom.S, cur.S, dom.S), SBool}))
	v := vc.name("val", x.mapGet(st, mt, m, k))
	x.wf(st, v, mt.Elem())
	x.wf(st, k, mt.Key())
	st.iters[key] = vc.name("visited", ite(okT, store(cur, k, tTrue), cur))
	st.written[fmt.Sprintf("i:%d:%p", fr.id, rng)] = true
	_ = vs
	fr.tuples[in] = []Term{okT, k, v}
}
