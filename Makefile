export GOFLAGS=-mod=mod
export GOPROXY=off
export GOSUMDB=off
export GOTOOLCHAIN=local

.PHONY: setup
setup:
	cd /verif/engine && go build -o /verif/bin/gocv .
