package diff

import (
	"testing"
	spec "github.com/go-openapi/spec"
)

// replay of diff.CheckStringTypeChanges#ensures[post 10: vs_stringT(type1) && vs_stringT(type2) && len(type1.Enum) == 0 && len(type2.Enum) > 0 ==> vs_hasCode(result, len(diffs), AddedConstraint)]
func TestVerifReplay(t *testing.T) { vsReplayDriver(t, vsReplayBody) }

func vsReplayBody(t *testing.T, vs_s func(string) string) {
	vs_oldLog = map[string]any{}
	vs_candidates = []string{""}
	vs_candidates = append(vs_candidates, "", "!1!", "!2!", "!3!", "", "Pattern Changed:->", "attern Changed:->", "string")
	vs_v1 := new(spec.SchemaProps)
	vs_v2 := new(float64)
	vs_v3 := new(float64)
	vs_v4 := new(int64)
	*vs_v4 = int64(-9223372036854754478)
	vs_v5 := new(int64)
	*vs_v5 = int64(-9223372036854774382)
	vs_v6 := new(int64)
	*vs_v6 = int64(66)
	vs_v7 := new(int64)
	*vs_v7 = int64(66)
	vs_v8 := new(float64)
	vs_v9 := new(int64)
	*vs_v9 = int64(66)
	vs_v10 := new(int64)
	*vs_v10 = int64(66)
	vs_v11 := new(spec.SchemaOrArray)
	vs_v12 := new(spec.Schema)
	vs_v13 := new(spec.SchemaOrBool)
	vs_v14 := new(spec.SchemaOrBool)
	*vs_v1 = spec.SchemaProps{ID: string(vs_s("")), Schema: spec.SchemaURL(vs_s("")), Description: string(vs_s("")), Type: spec.StringOrArray{string(vs_s("string")), string(vs_s("!2!")), string(vs_s("!2!")), string(vs_s("!2!")), string(vs_s("!2!")), string(vs_s("!2!")), string(vs_s("!2!")), string(vs_s("!2!"))}, Format: string(vs_s("")), Title: string(vs_s("")), Default: any("vs_other"), Maximum: vs_v2, Minimum: vs_v3, MaxLength: vs_v4, MinLength: vs_v5, Pattern: string(vs_s("")), MaxItems: vs_v6, MinItems: vs_v7, MultipleOf: vs_v8, Enum: []interface{}{}, MaxProperties: vs_v9, MinProperties: vs_v10, Required: []string{string(vs_s("!3!")), string(vs_s("!3!")), string(vs_s("!3!")), string(vs_s("!3!")), string(vs_s("!3!")), string(vs_s("!3!")), string(vs_s("!3!")), string(vs_s("!3!"))}, Items: vs_v11, AllOf: []spec.Schema{spec.Schema{}, spec.Schema{}, spec.Schema{}, spec.Schema{}, spec.Schema{}, spec.Schema{}, spec.Schema{}, spec.Schema{}}, OneOf: []spec.Schema{spec.Schema{}, spec.Schema{}, spec.Schema{}, spec.Schema{}, spec.Schema{}, spec.Schema{}, spec.Schema{}, spec.Schema{}}, AnyOf: []spec.Schema{spec.Schema{}, spec.Schema{}, spec.Schema{}, spec.Schema{}, spec.Schema{}, spec.Schema{}, spec.Schema{}, spec.Schema{}}, Not: vs_v12, Properties: make(spec.SchemaProperties), AdditionalProperties: vs_v13, PatternProperties: make(spec.SchemaProperties), Dependencies: make(spec.Dependencies), AdditionalItems: vs_v14, Definitions: make(spec.Definitions)}
	vs_v15 := new(spec.SchemaProps)
	vs_v16 := new(float64)
	vs_v17 := new(float64)
	vs_v18 := new(int64)
	*vs_v18 = int64(-9223372036854754478)
	vs_v19 := new(int64)
	*vs_v19 = int64(-9223372036854774383)
	vs_v20 := new(int64)
	*vs_v20 = int64(66)
	vs_v21 := new(int64)
	*vs_v21 = int64(66)
	vs_v22 := new(float64)
	vs_v23 := new(int64)
	*vs_v23 = int64(66)
	vs_v24 := new(int64)
	*vs_v24 = int64(66)
	vs_v25 := new(spec.SchemaOrArray)
	vs_v26 := new(spec.Schema)
	vs_v27 := new(spec.SchemaOrBool)
	vs_v28 := new(spec.SchemaOrBool)
	*vs_v15 = spec.SchemaProps{ID: string(vs_s("")), Schema: spec.SchemaURL(vs_s("")), Description: string(vs_s("")), Type: spec.StringOrArray{string(vs_s("string")), string(vs_s("!1!")), string(vs_s("!1!")), string(vs_s("!1!")), string(vs_s("!1!")), string(vs_s("!1!")), string(vs_s("!1!")), string(vs_s("!1!"))}, Format: string(vs_s("")), Title: string(vs_s("")), Default: any("vs_other"), Maximum: vs_v16, Minimum: vs_v17, MaxLength: vs_v18, MinLength: vs_v19, Pattern: string(vs_s("")), MaxItems: vs_v20, MinItems: vs_v21, MultipleOf: vs_v22, Enum: []interface{}{any("vs_other"), any("vs_other"), any("vs_other"), any("vs_other"), any("vs_other"), any("vs_other"), any("vs_other"), any("vs_other")}, MaxProperties: vs_v23, MinProperties: vs_v24, Required: []string{string(vs_s("!3!")), string(vs_s("!3!")), string(vs_s("!3!")), string(vs_s("!3!")), string(vs_s("!3!")), string(vs_s("!3!")), string(vs_s("!3!")), string(vs_s("!3!"))}, Items: vs_v25, AllOf: []spec.Schema{spec.Schema{}, spec.Schema{}, spec.Schema{}, spec.Schema{}, spec.Schema{}, spec.Schema{}, spec.Schema{}, spec.Schema{}}, OneOf: []spec.Schema{spec.Schema{}, spec.Schema{}, spec.Schema{}, spec.Schema{}, spec.Schema{}, spec.Schema{}, spec.Schema{}, spec.Schema{}}, AnyOf: []spec.Schema{spec.Schema{}, spec.Schema{}, spec.Schema{}, spec.Schema{}, spec.Schema{}, spec.Schema{}, spec.Schema{}, spec.Schema{}}, Not: vs_v26, Properties: make(spec.SchemaProperties), AdditionalProperties: vs_v27, PatternProperties: make(spec.SchemaProperties), Dependencies: make(spec.Dependencies), AdditionalItems: vs_v28, Definitions: make(spec.Definitions)}
	var vs_a0 []TypeDiff = []TypeDiff{TypeDiff{Change: SpecChangeCode(7193), Description: string(vs_s("")), FromType: string(vs_s("")), ToType: string(vs_s(""))}, TypeDiff{Change: SpecChangeCode(27541), Description: string(vs_s("")), FromType: string(vs_s("")), ToType: string(vs_s(""))}, TypeDiff{Change: SpecChangeCode(32610), Description: string(vs_s("attern Changed:->")), FromType: string(vs_s("Pattern Changed:->")), ToType: string(vs_s(""))}, TypeDiff{Change: SpecChangeCode(-9223372036854752089), Description: string(vs_s("")), FromType: string(vs_s("")), ToType: string(vs_s(""))}, TypeDiff{Change: SpecChangeCode(-9223372036854752128), Description: string(vs_s("")), FromType: string(vs_s("")), ToType: string(vs_s(""))}, TypeDiff{Change: SpecChangeCode(12519), Description: string(vs_s("")), FromType: string(vs_s("")), ToType: string(vs_s(""))}}
	_ = vs_a0
	var vs_a1 *spec.SchemaProps = vs_v1
	_ = vs_a1
	var vs_a2 *spec.SchemaProps = vs_v15
	_ = vs_a2
	if !vs_pre_CheckStringTypeChanges_1(vs_a0, vs_a1, vs_a2) { t.Skip("model violates requires") }
	var vs_r0 []TypeDiff
	_ = vs_r0
	vs_phase = 1
	func() { defer func() { recover() }(); vs_post_CheckStringTypeChanges_10(vs_a0, vs_a1, vs_a2, vs_r0) }()
	vs_phase = 0
	var vs_panic any
	var vs_stack string
	_ = vs_stack
	func() {
		defer func() { vs_panic = recover(); if vs_panic != nil { vs_stack = vsStack() } }()
		vs_r0 = CheckStringTypeChanges(vs_a0, vs_a1, vs_a2)
	}()
	if vs_panic != nil { t.Fatalf("VERIF-REPRODUCED: the real function panics instead of returning (its contract says it never does): %v", vs_panic) }
	vs_phase = 2
	var vs_ok bool
	var vs_opanic any
	func() {
		defer func() { vs_opanic = recover() }()
		vs_ok = vs_post_CheckStringTypeChanges_10(vs_a0, vs_a1, vs_a2, vs_r0)
	}()
	if vs_opanic != nil { t.Skipf("oracle could not be evaluated: %v", vs_opanic) }
	if !vs_ok { t.Fatalf("VERIF-REPRODUCED: postcondition false after the call; results: %+v", []any{vs_r0}) }
}
