package diff

// F15 (property C12): comparing two valid specs where the new one adds a response without a body
// (e.g. "204: description: no content") panicked: analyseResponseParams handed the nil
// *spec.Schema to getSchemaDiffNode, which dereferenced it.
// Run in /repo/cmd/swagger/commands/diff (e.g. through go test -overlay).

import (
	"encoding/json"
	"testing"

	"github.com/go-openapi/spec"
)

func f15Spec(t *testing.T, responses string) *spec.Swagger {
	doc := `{"swagger":"2.0","info":{"title":"t","version":"1"},"paths":{"/a":{"get":{"responses":{` + responses + `}}}}}`
	var sw spec.Swagger
	if err := json.Unmarshal([]byte(doc), &sw); err != nil {
		t.Fatal(err)
	}
	return &sw
}

func TestF15AddedResponseWithoutBody(t *testing.T) {
	a := f15Spec(t, `"200":{"description":"ok"}`)
	b := f15Spec(t, `"200":{"description":"ok"},"204":{"description":"no content"}`)
	defer func() {
		if r := recover(); r != nil {
			t.Fatalf("diff panicked on two valid specs: %v", r)
		}
	}()
	diffs, err := Compare(a, b)
	if err != nil {
		t.Fatal(err)
	}
	found := false
	for _, d := range diffs {
		if d.Code == AddedResponse && d.DifferenceLocation.Response == 204 {
			found = true
		}
	}
	if !found {
		t.Fatalf("added response 204 not reported: %v", diffs)
	}
}
