package diff

import (
	"testing"
	spec "github.com/go-openapi/spec"
)

// replay of diff.getSchemaType#nilderef[t50]@diff.getTypeFromSchemaProps
func TestVerifReplay(t *testing.T) {
	vs_candidates = append(vs_candidates, "", "", "array")
	vs_v1 := new(float64)
	*vs_v1 = float64(0)
	vs_v2 := new(float64)
	*vs_v2 = float64(0)
	vs_v3 := new(int64)
	*vs_v3 = int64(0)
	vs_v4 := new(int64)
	*vs_v4 = int64(0)
	vs_v5 := new(int64)
	*vs_v5 = int64(0)
	vs_v6 := new(int64)
	*vs_v6 = int64(0)
	vs_v7 := new(float64)
	*vs_v7 = float64(0)
	vs_v8 := new(int64)
	*vs_v8 = int64(0)
	vs_v9 := new(int64)
	*vs_v9 = int64(0)
	vs_v10 := new(spec.Schema)
	*vs_v10 = spec.Schema{}
	vs_v11 := new(spec.SchemaOrBool)
	*vs_v11 = spec.SchemaOrBool{}
	vs_v12 := new(spec.SchemaOrBool)
	*vs_v12 = spec.SchemaOrBool{}
	var vs_a0 interface{} = interface{}(spec.SchemaProps{ID: string("array"), Schema: spec.SchemaURL("array"), Description: string("array"), Type: spec.StringOrArray{string("array"), string("array"), string("array"), string("array"), string("array"), string("array"), string("array"), string("array")}, Title: string("array"), Default: any("vs_other"), Maximum: vs_v1, Minimum: vs_v2, MaxLength: vs_v3, MinLength: vs_v4, Pattern: string("array"), MaxItems: vs_v5, MinItems: vs_v6, MultipleOf: vs_v7, Enum: []interface{}{nil, nil, nil, nil, nil, nil, nil, nil}, MaxProperties: vs_v8, MinProperties: vs_v9, Required: []string{string("array"), string("array"), string("array"), string("array"), string("array"), string("array"), string("array"), string("array")}, AllOf: []spec.Schema{spec.Schema{}, spec.Schema{}, spec.Schema{}, spec.Schema{}, spec.Schema{}, spec.Schema{}, spec.Schema{}, spec.Schema{}}, OneOf: []spec.Schema{spec.Schema{}, spec.Schema{}, spec.Schema{}, spec.Schema{}, spec.Schema{}, spec.Schema{}, spec.Schema{}, spec.Schema{}}, AnyOf: []spec.Schema{spec.Schema{}, spec.Schema{}, spec.Schema{}, spec.Schema{}, spec.Schema{}, spec.Schema{}, spec.Schema{}, spec.Schema{}}, Not: vs_v10, Properties: make(spec.SchemaProperties), AdditionalProperties: vs_v11, PatternProperties: make(spec.SchemaProperties), Dependencies: make(spec.Dependencies), AdditionalItems: vs_v12, Definitions: make(spec.Definitions)})
	_ = vs_a0
	if !vs_pre_getSchemaType_1(vs_a0) { t.Skip("model violates requires") }
	var vs_r0 string
	_ = vs_r0
	var vs_r1 bool
	_ = vs_r1
	var vs_panic any
	func() {
		defer func() { vs_panic = recover() }()
		vs_r0, vs_r1 = getSchemaType(vs_a0)
	}()
	if vs_panic != nil { t.Fatalf("VERIF-REPRODUCED: the real function panics: %v", vs_panic) }
}
