package diff

import (
	"testing"
	spec "github.com/go-openapi/spec"
)

// replay of diff.getSchemaType#bounds[&t20[0:int]]@diff.getTypeFromSchema
func TestVerifReplay(t *testing.T) {
	vs_candidates = append(vs_candidates, "", "", "a")
	vs_v1 := new(spec.Schema)
	vs_v2 := new(float64)
	*vs_v2 = float64(0)
	vs_v3 := new(float64)
	*vs_v3 = float64(0)
	vs_v4 := new(int64)
	*vs_v4 = int64(0)
	vs_v5 := new(int64)
	*vs_v5 = int64(0)
	vs_v6 := new(int64)
	*vs_v6 = int64(0)
	vs_v7 := new(int64)
	*vs_v7 = int64(0)
	vs_v8 := new(float64)
	*vs_v8 = float64(0)
	vs_v9 := new(int64)
	*vs_v9 = int64(0)
	vs_v10 := new(int64)
	*vs_v10 = int64(0)
	vs_v11 := new(spec.SchemaOrArray)
	vs_v12 := new(spec.Schema)
	*vs_v12 = spec.Schema{}
	*vs_v11 = spec.SchemaOrArray{Schema: vs_v12, Schemas: []spec.Schema{spec.Schema{}, spec.Schema{}, spec.Schema{}, spec.Schema{}, spec.Schema{}, spec.Schema{}, spec.Schema{}, spec.Schema{}}}
	vs_v13 := new(spec.Schema)
	*vs_v13 = spec.Schema{}
	vs_v14 := new(spec.SchemaOrBool)
	*vs_v14 = spec.SchemaOrBool{}
	vs_v15 := new(spec.SchemaOrBool)
	*vs_v15 = spec.SchemaOrBool{}
	*vs_v1 = spec.Schema{SchemaProps: spec.SchemaProps{ID: string("a"), Schema: spec.SchemaURL("a"), Description: string("a"), Type: spec.StringOrArray{}, Format: string("a"), Title: string("a"), Default: any("vs_other"), Maximum: vs_v2, Minimum: vs_v3, MaxLength: vs_v4, MinLength: vs_v5, Pattern: string("a"), MaxItems: vs_v6, MinItems: vs_v7, MultipleOf: vs_v8, Enum: []interface{}{nil, nil, nil, nil, nil, nil, nil, nil}, MaxProperties: vs_v9, MinProperties: vs_v10, Required: []string{string("a"), string("a"), string("a"), string("a"), string("a"), string("a"), string("a"), string("a")}, Items: vs_v11, AllOf: []spec.Schema{spec.Schema{}, spec.Schema{}, spec.Schema{}, spec.Schema{}, spec.Schema{}, spec.Schema{}, spec.Schema{}, spec.Schema{}}, OneOf: []spec.Schema{spec.Schema{}, spec.Schema{}, spec.Schema{}, spec.Schema{}, spec.Schema{}, spec.Schema{}, spec.Schema{}, spec.Schema{}}, AnyOf: []spec.Schema{spec.Schema{}, spec.Schema{}, spec.Schema{}, spec.Schema{}, spec.Schema{}, spec.Schema{}, spec.Schema{}, spec.Schema{}}, Not: vs_v13, Properties: make(spec.SchemaProperties), AdditionalProperties: vs_v14, PatternProperties: make(spec.SchemaProperties), Dependencies: make(spec.Dependencies), AdditionalItems: vs_v15, Definitions: make(spec.Definitions)}}
	var vs_a0 interface{} = interface{}(vs_v1)
	_ = vs_a0
	if !vs_pre_getSchemaType_1(vs_a0) { t.Skip("model violates requires") }
	var vs_r0 string
	_ = vs_r0
	var vs_r1 bool
	_ = vs_r1
	var vs_panic any
	func() {
		defer func() { vs_panic = recover() }()
		vs_r0, vs_r1 = getSchemaType(vs_a0)
	}()
	if vs_panic != nil { t.Fatalf("VERIF-REPRODUCED: the real function panics: %v", vs_panic) }
}
