package diff

import "testing"

// F11: with the JSON format the report never signals breaking changes: the third result of
// ReportAllDiffs(true) is nil although a Breaking difference is present (the text format
// returns an error for the same differences).
func TestVerifF11(t *testing.T) {
	ds := SpecDifferences{}.addDiff(SpecDifference{DifferenceLocation: DifferenceLocation{URL: "/a", Method: "get"}, Code: DeletedEndpoint})
	if ds.BreakingChangeCount() != 1 {
		t.Fatalf("setup: expected one breaking difference")
	}
	_, err, warnTxt := ds.ReportAllDiffs(false)
	if err != nil || warnTxt == nil {
		t.Fatalf("text format: err=%v warn=%v", err, warnTxt)
	}
	_, err, warnJSON := ds.ReportAllDiffs(true)
	if err != nil {
		t.Fatal(err)
	}
	if warnJSON == nil {
		t.Fatalf("VERIF-REPRODUCED: JSON format returns no warning for a Breaking difference (exit status 0)")
	}
}
