package codescan

// F14 (property C16): encoding/json gives a field tagged `json:"-,"` the JSON key "-"
// ("a field with name "-" can still be generated using the tag "-,""); parseJSONTag dropped it.
// Run in /repo/codescan (e.g. through go test -overlay).

import (
	"encoding/json"
	"go/ast"
	"go/token"
	"testing"
)

func TestF14DashCommaTag(t *testing.T) {
	type T struct {
		Dash int `json:"-,"`
	}
	b, _ := json.Marshal(T{Dash: 1})
	if string(b) != `{"-":1}` {
		t.Fatalf("encoding/json changed: %s", b)
	}
	f := &ast.Field{
		Names: []*ast.Ident{ast.NewIdent("Dash")},
		Type:  ast.NewIdent("int"),
		Tag:   &ast.BasicLit{Kind: token.STRING, Value: "`json:\"-,\"`"},
	}
	name, ignore, _, _, err := parseJSONTag(f)
	if err != nil {
		t.Fatal(err)
	}
	if ignore || name != "-" {
		t.Fatalf("parseJSONTag(`json:\"-,\"`) = name %q ignore %v; encoding/json emits the key \"-\"", name, ignore)
	}
}
