package codescan
import ("testing";"go/ast")
func TestProbe17(t *testing.T) {
	doc := &ast.CommentGroup{List: []*ast.Comment{{Text:"//"},{Text:"// ---"},{Text:"// responses:"},{Text:"//      "},{Text:"//   200:"},{Text:"//     description: ok"}}}
	sp := new(yamlSpecScanner)
	sp.setTitle = func([]string){}
	err := sp.Parse(doc)
	t.Logf("%v %q", err, sp.yamlSpec)
	err = sp.UnmarshalSpec(func(b []byte) error { t.Logf("%s", b); return nil })
	t.Logf("%v", err)
}
