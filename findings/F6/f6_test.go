package diff

// F6 (property C07): the JSON report listed the differences in the order the analysis produced
// them, which follows map iteration; the text report is sorted. Two runs of `swagger diff -f json`
// on the same pair of specs printed different documents.
// Run in /repo/cmd/swagger/commands/diff (e.g. through go test -overlay).

import (
	"io"
	"testing"
)

func TestF6JSONReportIsOrdered(t *testing.T) {
	a := SpecDifference{DifferenceLocation: DifferenceLocation{URL: "/a", Method: "get"}, Code: AddedEndpoint}
	b := SpecDifference{DifferenceLocation: DifferenceLocation{URL: "/b", Method: "get"}, Code: AddedEndpoint}
	render := func(ds SpecDifferences) string {
		r, err, _ := ds.ReportAllDiffs(true)
		if err != nil {
			t.Fatal(err)
		}
		out, _ := io.ReadAll(r)
		return string(out)
	}
	// the same set of differences, found in two different orders
	if x, y := render(SpecDifferences{a, b}), render(SpecDifferences{b, a}); x != y {
		t.Fatalf("the JSON report depends on the order in which differences were found:\n%s\nvs\n%s", x, y)
	}
}
