package codescan

// Overlay test (go test -overlay) confirming F12 on the tree before the fix: a blank line right
// after "Extensions:" in a swagger:meta block comment crashed removeYamlIndent.
import (
	"go/ast"
	"testing"

	"github.com/go-openapi/spec"
)

func TestF12(t *testing.T) {
	sw := new(spec.Swagger)
	doc := &ast.CommentGroup{List: []*ast.Comment{{Text: "/*\nPackage p API.\n\nExtensions:\n\nx-foo: bar\n\nswagger:meta\n*/"}}}
	err := newMetaParser(sw).Parse(doc)
	t.Logf("%v %v", sw.Extensions, err)
}
