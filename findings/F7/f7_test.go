package generator

import (
	"encoding/json"
	"testing"

	"github.com/go-openapi/analysis"
	"github.com/go-openapi/spec"
)

func TestF7CollidingOperationNames(t *testing.T) {
	doc := `{"swagger":"2.0","info":{"title":"t","version":"1"},"paths":{
	 "/a-b":{"get":{"responses":{"200":{"description":"ok"}}}},
	 "/a_b":{"get":{"responses":{"200":{"description":"ok"}}}}}}`
	var sw spec.Swagger
	if err := json.Unmarshal([]byte(doc), &sw); err != nil {
		t.Fatal(err)
	}
	ops := gatherOperations(analysis.New(&sw), nil)
	if len(ops) != 2 {
		t.Fatalf("expected 2 operations, got %d: %v", len(ops), ops)
	}
	paths := map[string]bool{}
	for k, o := range ops {
		paths[o.Path] = true
		t.Logf("%s -> %s %s", k, o.Method, o.Path)
	}
	if len(paths) != 2 {
		t.Fatalf("an operation was overwritten: %v", paths)
	}
}
