package codescan

import (
	"go/ast"
	"reflect"
	"strconv"
	"strings"

	"github.com/go-openapi/spec"
)

// vs_goJSONType / vs_goJSONFormat: how encoding/json represents a value of a Go builtin type
// (encoding/json package documentation, "Marshal"): booleans as JSON booleans, integer and
// floating-point kinds as JSON numbers, strings as JSON strings. The format is the width-exact
// Swagger format of the Go type (int and uint are 64-bit on every platform the generator
// targets; byte = uint8, rune = int32, uintptr is an unsigned 64-bit integer).
func vs_goJSONType(name string) string {
	switch name {
	case "bool":
		return "boolean"
	case "int", "int8", "int16", "int32", "int64", "uint", "uint8", "uint16", "uint32", "uint64", "uintptr", "byte", "rune":
		return "integer"
	case "float32", "float64":
		return "number"
	case "string":
		return "string"
	}
	return ""
}

func vs_goJSONFormat(name string) string {
	switch name {
	case "int", "int64":
		return "int64"
	case "int8":
		return "int8"
	case "int16":
		return "int16"
	case "int32", "rune":
		return "int32"
	case "uint", "uint64", "uintptr":
		return "uint64"
	case "uint8", "byte":
		return "uint8"
	case "uint16":
		return "uint16"
	case "uint32":
		return "uint32"
	case "float32":
		return "float"
	case "float64":
		return "double"
	}
	return ""
}

// vs_identName: the identifier a type expression consists of ("" if it is not a plain identifier).
func vs_identName(tpe ast.Expr) string {
	if id, ok := tpe.(*ast.Ident); ok && id != nil {
		return id.Name
	}
	return ""
}

// vs_jsonStringable: the builtin types for which encoding/json honours the ",string" tag option
// ("The "string" option signals that a field is stored as JSON inside a JSON-encoded string. It
// applies only to fields of string, floating point, integer, or boolean types").
func vs_jsonStringable(name string) bool {
	switch name {
	case "string", "bool", "float32", "float64",
		"int", "int8", "int16", "int32", "int64",
		"uint", "uint8", "uint16", "uint32", "uint64", "uintptr", "byte", "rune":
		return true
	}
	return false
}

// vs_wfTypeExpr: the parser never stores typed-nil nodes in an ast.Expr.
func vs_wfTypeExpr(e ast.Expr) bool {
	if id, ok := e.(*ast.Ident); ok {
		return id != nil
	}
	if s, ok := e.(*ast.StarExpr); ok {
		return s != nil && vs_wfTypeExpr(s.X)
	}
	return true
}

// ---- json struct tags (encoding/json, "Marshal": struct tag conventions) ----

// vs_fieldName: the Go name of the field ("" for an embedded field).
func vs_fieldName(f *ast.Field) string {
	if len(f.Names) > 0 {
		return f.Names[0].Name
	}
	return ""
}

// vs_hasJSONTag: the field carries a well-formed, non-blank struct tag literal.
func vs_hasJSONTag(f *ast.Field) bool {
	if f.Tag == nil || len(strings.TrimSpace(f.Tag.Value)) == 0 {
		return false
	}
	tv, err := strconv.Unquote(f.Tag.Value)
	return err == nil && strings.TrimSpace(tv) != ""
}

// vs_jsonOpts: the comma-separated parts of the `json:"..."` key of the struct tag (the first
// part is the name, the others are options).
func vs_jsonOpts(f *ast.Field) tagOptions {
	tv, _ := strconv.Unquote(f.Tag.Value)
	return tagOptions(strings.Split(reflect.StructTag(tv).Get("json"), ","))
}

// vs_jsonIgnored: encoding/json, "Marshal": "As a special case, if the field tag is "-", the field is
// always omitted. Note that a field with name "-" can still be generated using the tag "-,"."
func vs_jsonIgnored(f *ast.Field) bool {
	return vs_jsonOpts(f).Name() == "-" && len(vs_jsonOpts(f)) == 1
}

// vs_dashComma: the tag is "-," followed by options: the one case of the "-" rule in which
// encoding/json keeps the field (finding F14: the scanner drops it; pinned by TestSchemaBuilder).
func vs_dashComma(f *ast.Field) bool {
	return vs_jsonOpts(f).Name() == "-" && len(vs_jsonOpts(f)) > 1
}

// vs_jsonName: the JSON key of the field: the tag name, or the Go field name when the tag gives none
// (or when the field is ignored).
func vs_jsonName(f *ast.Field) string {
	n := vs_jsonOpts(f).Name()
	if n == "" || vs_jsonIgnored(f) {
		return vs_fieldName(f)
	}
	return n
}

// ---- path item slots ----

func vs_isMethod(m string) bool {
	switch m {
	case "GET", "POST", "PUT", "PATCH", "HEAD", "DELETE", "OPTIONS":
		return true
	}
	return false
}

func vs_slot(p *spec.PathItem, m string) *spec.Operation {
	switch m {
	case "GET":
		return p.Get
	case "POST":
		return p.Post
	case "PUT":
		return p.Put
	case "PATCH":
		return p.Patch
	case "HEAD":
		return p.Head
	case "DELETE":
		return p.Delete
	case "OPTIONS":
		return p.Options
	}
	return nil
}

// ---- literal conversion (strconv) ----

func vs_floatOK(s string) bool { _, err := strconv.ParseFloat(s, 64); return err == nil }
func vs_float(s string) float64 { f, _ := strconv.ParseFloat(s, 64); return f }
func vs_boolOK(s string) bool   { _, err := strconv.ParseBool(s); return err == nil }
func vs_bool(s string) bool     { b, _ := strconv.ParseBool(s); return b }

// ---- sectioned parser state (what its constructors establish) ----

// vs_commentsOK: go/parser never stores nil comments in a comment group.
func vs_commentsOK(doc *ast.CommentGroup) bool {
	return doc == nil || vs_all(func(i int) bool { return 0 <= i && i < len(doc.List) ==> doc.List[i] != nil })
}

// vs_taggersOK: every tag parser the sectioned parser knows, has selected or has matched carries
// its value parser (newSingleLineTagParser / newMultiLineTagParser always set it).
func vs_taggersOK(st *sectionedParser) bool {
	return vs_all(func(i int) bool { return 0 <= i && i < len(st.taggers) ==> st.taggers[i].Parser != nil }) &&
		(st.currentTagger != nil ==> st.currentTagger.Parser != nil) &&
		vs_all(func(k string) bool { return vs_has(st.matched, k) ==> st.matched[k].Parser != nil })
}
