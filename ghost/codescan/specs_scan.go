package codescan

import "go/ast"

// vs_goJSONType / vs_goJSONFormat: how encoding/json represents a value of a Go builtin type
// (encoding/json package documentation, "Marshal"): booleans as JSON booleans, integer and
// floating-point kinds as JSON numbers, strings as JSON strings. The format is the width-exact
// Swagger format of the Go type (int and uint are 64-bit on every platform the generator
// targets; byte = uint8, rune = int32, uintptr is an unsigned 64-bit integer).
func vs_goJSONType(name string) string {
	switch name {
	case "bool":
		return "boolean"
	case "int", "int8", "int16", "int32", "int64", "uint", "uint8", "uint16", "uint32", "uint64", "uintptr", "byte", "rune":
		return "integer"
	case "float32", "float64":
		return "number"
	case "string":
		return "string"
	}
	return ""
}

func vs_goJSONFormat(name string) string {
	switch name {
	case "int", "int64":
		return "int64"
	case "int8":
		return "int8"
	case "int16":
		return "int16"
	case "int32", "rune":
		return "int32"
	case "uint", "uint64", "uintptr":
		return "uint64"
	case "uint8", "byte":
		return "uint8"
	case "uint16":
		return "uint16"
	case "uint32":
		return "uint32"
	case "float32":
		return "float"
	case "float64":
		return "double"
	}
	return ""
}

// vs_identName: the identifier a type expression consists of ("" if it is not a plain identifier).
func vs_identName(tpe ast.Expr) string {
	if id, ok := tpe.(*ast.Ident); ok && id != nil {
		return id.Name
	}
	return ""
}

// vs_jsonStringable: the builtin types for which encoding/json honours the ",string" tag option
// ("The "string" option signals that a field is stored as JSON inside a JSON-encoded string. It
// applies only to fields of string, floating point, integer, or boolean types").
func vs_jsonStringable(name string) bool {
	switch name {
	case "string", "bool", "float32", "float64",
		"int", "int8", "int16", "int32", "int64",
		"uint", "uint8", "uint16", "uint32", "uint64", "uintptr", "byte", "rune":
		return true
	}
	return false
}

// vs_wfTypeExpr: the parser never stores typed-nil nodes in an ast.Expr.
func vs_wfTypeExpr(e ast.Expr) bool {
	if id, ok := e.(*ast.Ident); ok {
		return id != nil
	}
	if s, ok := e.(*ast.StarExpr); ok {
		return s != nil && vs_wfTypeExpr(s.X)
	}
	return true
}
