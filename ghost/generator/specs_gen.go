package generator

import (
	"strings"
	"unicode/utf8"

	"github.com/go-openapi/spec"
)

// vs_opt: s when c holds, otherwise the empty string.
func vs_opt(c bool, s string) string {
	if c {
		return s
	}
	return ""
}

func vs_isBool(v interface{}) bool { _, ok := v.(bool); return ok }

func vs_isTrue(v interface{}) bool { b, ok := v.(bool); return ok && b }

// vs_overridden / vs_override: the x-nullable (or, failing that, x-isnullable) extension carries a
// boolean that decides nullability (docs/reference/models/schemas.md, "nullability").
func vs_overridden(ext spec.Extensions) bool {
	return ext != nil && ((vs_has(ext, xNullable) && vs_isBool(ext[xNullable])) || (vs_has(ext, xIsNullable) && vs_isBool(ext[xIsNullable])))
}

func vs_override(ext spec.Extensions) bool {
	if vs_has(ext, xNullable) && vs_isBool(ext[xNullable]) {
		return vs_isTrue(ext[xNullable])
	}
	return vs_isTrue(ext[xIsNullable])
}

// vs_inWords: w is one of the first n words of ws.
func vs_inWords(ws []string, n int, w string) bool {
	return vs_any(func(i int) bool { return 0 <= i && i < n && i < len(ws) && ws[i] == w })
}

// vs_reservedSetOK: the lookup set of an initialised LanguageOpts is exactly its word list.
func vs_reservedSetOK(l *LanguageOpts) bool {
	return l.reservedWordsSet != nil && vs_all(func(w string) bool { return vs_has(l.reservedWordsSet, w) == vs_inWords(l.ReservedWords, len(l.ReservedWords), w) })
}

// vs_noneEndsInVar: appending "Var" to a reserved word cannot produce another reserved word.
func vs_noneEndsInVar(ws []string) bool {
	return vs_all(func(i int) bool { return 0 <= i && i < len(ws) ==> !strings.HasSuffix(ws[i], "Var") })
}

// vs_isGoKeyword: the 25 keywords of the Go language specification ("Keywords").
func vs_isGoKeyword(w string) bool {
	switch w {
	case "break", "default", "func", "interface", "select",
		"case", "defer", "go", "map", "struct",
		"chan", "else", "goto", "package", "switch",
		"const", "fallthrough", "if", "range", "type",
		"continue", "for", "import", "return", "var":
		return true
	}
	return false
}

// ---- C10: raw-string escaping of the embedded spec ----

// vs_rawEscape: inside a Go raw string literal a backtick is written by closing the literal,
// concatenating an interpreted string holding the backtick, and re-opening the literal.
const vs_rawEscape = "`+\"`\"+`"

// vs_piece: what one rune of the input contributes to the escaped text: the escape sequence for a
// backtick, otherwise the rune's own bytes s[p:q].
func vs_piece(s string, p, q int, r rune) string {
	if r == '`' {
		return vs_rawEscape
	}
	return s[p:q]
}

// vs_validUTF8: the text is valid UTF-8 (what encoding/json always produces).
func vs_validUTF8(s string) bool { return utf8.ValidString(s) }

// vs_goNameFile: per-model and per-operation files are named after the Go identifier of the
// model / operation (pascalize, then snakize): two definitions or operations that get distinct
// Go names therefore get distinct files, and none overwrites another (C08).
const vs_goNameFile = "{{ (snakize (pascalize .Name)) }}"

// ---- C02: guards that drop validations inapplicable to the type ----

// JSON-schema draft 4, section 5: each keyword family applies to one primitive type. A guard may
// drop a family only for a type it does not apply to; for the type it applies to, what is handed
// on (b) must be what was found (a).
func vs_sameNumberValidations(a, b spec.SchemaValidations) bool {
	return a.Maximum == b.Maximum && a.ExclusiveMaximum == b.ExclusiveMaximum && a.Minimum == b.Minimum &&
		a.ExclusiveMinimum == b.ExclusiveMinimum && a.MultipleOf == b.MultipleOf
}

func vs_sameStringValidations(a, b spec.SchemaValidations) bool {
	return a.MaxLength == b.MaxLength && a.MinLength == b.MinLength && a.Pattern == b.Pattern
}

func vs_sameArrayValidations(a, b spec.SchemaValidations) bool {
	return a.MaxItems == b.MaxItems && a.MinItems == b.MinItems && a.UniqueItems == b.UniqueItems
}

func vs_sameObjectValidations(a, b spec.SchemaValidations) bool {
	return a.MaxProperties == b.MaxProperties && a.MinProperties == b.MinProperties && vs_eq(a.PatternProperties, b.PatternProperties)
}

func vs_sameEnum(a, b spec.SchemaValidations) bool { return vs_same(a.Enum, b.Enum) }

// ---- C06 / C07: security schemes handed to the authenticator switch ----

// vs_schemeOK: the generated scheme g describes the spec's scheme of the same name: its kind flags
// are exactly the (lower-cased) type of that scheme - basic, apikey, oauth2 - and the location and
// parameter name are the scheme's.
func vs_schemeOK(m map[string]spec.SecurityScheme, g GenSecurityScheme) bool {
	return vs_has(m, g.ID) &&
		g.Type == strings.ToLower(m[g.ID].Type) &&
		g.IsBasicAuth == (g.Type == "basic") && g.IsAPIKeyAuth == (g.Type == "apikey") && g.IsOAuth2 == (g.Type == "oauth2") &&
		g.Name == m[g.ID].Name && g.In == m[g.ID].In && g.Source == m[g.ID].In
}

// vs_anyConstraint: the schema carries one of the validation keywords the property statement
// lists (enum, numeric bounds incl. exclusive flags and multipleOf, string lengths, pattern,
// item counts, uniqueItems, property counts / pattern properties).
func vs_anyConstraint(m *spec.Schema) bool {
	return len(m.Enum) > 0 ||
		m.Maximum != nil || m.Minimum != nil || m.MultipleOf != nil ||
		m.MaxLength != nil || m.MinLength != nil || m.Pattern != "" ||
		m.MaxItems != nil || m.MinItems != nil || m.UniqueItems ||
		m.MaxProperties != nil || m.MinProperties != nil || len(m.PatternProperties) > 0
}

// vs_conflictPkg: package names the generated server and client already import or use as
// variables (docs: "package names conflicting with standard imports are renamed").
func vs_conflictPkg(pkg string) bool {
	switch pkg {
	case "api", "httptransport", "formats", "server",
		"errors", "runtime", "middleware", "security", "spec", "strfmt", "loads", "swag", "validate",
		"tls", "http", "fmt", "strings", "log", "flags", "pflag", "json", "time":
		return true
	}
	return false
}
