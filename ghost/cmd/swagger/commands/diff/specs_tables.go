package diff

// Specification of the numeric type hierarchy, from docs/reference/transform/diff.md
// and the property statements (C13: "type, format ... narrowed").

// vs_numeric: the primitive type string (type or type.format) denotes a number.
func vs_numeric(t string) bool {
	return t == "number" || t == "number.double" || t == "double" || t == "number.float" || t == "float" ||
		t == "long" || t == "integer.int64" || t == "integer" || t == "integer.int32"
}

// vs_wideness: larger = wider value set.
func vs_wideness(t string) int {
	switch t {
	case "number", "number.double", "double":
		return 3
	case "number.float", "float":
		return 2
	case "long", "integer.int64":
		return 1
	}
	return 0
}

// Global invariant: the numberWideness table is exactly the specification table.
func vs_globalinv_numberWideness() bool {
	return vs_all(func(t string) bool {
		return vs_has(numberWideness, t) == vs_numeric(t) && (vs_numeric(t) ==> numberWideness[t] == vs_wideness(t))
	})
}
