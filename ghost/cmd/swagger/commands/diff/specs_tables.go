package diff

// Specification of the numeric type hierarchy, from docs/reference/transform/diff.md
// and the property statements (C13: "type, format ... narrowed").

// vs_numeric: the primitive type string (type or type.format) denotes a number.
func vs_numeric(t string) bool {
	return t == "number" || t == "number.double" || t == "double" || t == "number.float" || t == "float" ||
		t == "long" || t == "integer.int64" || t == "integer" || t == "integer.int32"
}

// vs_wideness: larger = wider value set.
func vs_wideness(t string) int {
	switch t {
	case "number", "number.double", "double":
		return 3
	case "number.float", "float":
		return 2
	case "long", "integer.int64":
		return 1
	}
	return 0
}

// Global invariant: the numberWideness table is exactly the specification table.
func vs_globalinv_numberWideness() bool {
	return vs_all(func(t string) bool {
		return vs_has(numberWideness, t) == vs_numeric(t) && (vs_numeric(t) ==> numberWideness[t] == vs_wideness(t))
	})
}

// vs_mustBeBreaking: change codes that the C13 statement requires to be classified Breaking,
// per direction ("the cases the documentation lists as breaking").
func vs_mustBeBreaking(c SpecChangeCode, d DataDirection) bool {
	if c == DeletedEndpoint || c == DeletedConsumesFormat {
		return true
	}
	if d == Request {
		return c == AddedRequiredParam || c == ChangedOptionalToRequired || c == NarrowedType || c == ChangedType ||
			c == DeletedEnumValue || c == AddedConstraint || c == AddedRequiredProperty || c == ChangedCollectionFormat
	}
	return c == DeletedResponse || c == DeletedProperty || c == DeletedResponseHeader || c == AddedEnumValue
}

// vs_context: the direction addDiff derives from a location.
func vs_context(loc DifferenceLocation) DataDirection {
	if loc.Response > 0 {
		return Response
	}
	return Request
}

// Global invariant: the compatibility policy classifies every must-be-breaking code as Breaking
// (a code missing from all tables reads as the zero value, which is Breaking).
func vs_globalinv_compatibility() bool {
	return compatibility.ForChange != nil && compatibility.ForRequest != nil && compatibility.ForResponse != nil &&
		vs_all(func(c SpecChangeCode) bool {
			return (vs_mustBeBreaking(c, Request) ==> vs_lookupCompat(c, Request) == Breaking) &&
				(vs_mustBeBreaking(c, Response) ==> vs_lookupCompat(c, Response) == Breaking)
		})
}

// vs_lookupCompat restates getCompatibilityForChange over the tables.
func vs_lookupCompat(c SpecChangeCode, d DataDirection) Compatibility {
	if vs_has(compatibility.ForChange, c) {
		return compatibility.ForChange[c]
	}
	if d == Request {
		return compatibility.ForRequest[c]
	}
	return compatibility.ForResponse[c]
}

// Global invariants for C15: the code <-> string tables are total on the declared codes,
// injective, and the tables built by init are their inverses.
func vs_globalinv_codeTable() bool {
	return toStringSpecChangeCode != nil && toIDSpecChangeCode != nil &&
		vs_all(func(c SpecChangeCode) bool {
			return (NoChangeDetected <= c && c <= ChangedExtensionValue) == vs_has(toStringSpecChangeCode, c)
		}) &&
		vs_all(func(c SpecChangeCode) bool {
			return vs_has(toStringSpecChangeCode, c) ==> vs_has(toIDSpecChangeCode, toStringSpecChangeCode[c]) && toIDSpecChangeCode[toStringSpecChangeCode[c]] == c
		})
}

func vs_globalinv_compatTable() bool {
	return toStringCompatibility != nil && toIDCompatibility != nil &&
		vs_all(func(c Compatibility) bool {
			return (Breaking <= c && c <= Warning) == vs_has(toStringCompatibility, c)
		}) &&
		vs_all(func(c Compatibility) bool {
			return vs_has(toStringCompatibility, c) ==> vs_has(toIDCompatibility, toStringCompatibility[c]) && toIDCompatibility[toStringCompatibility[c]] == c
		})
}

// The type-name variables hold the Swagger type names (they are variables, not constants,
// in the code; nothing in the package assigns them after initialisation).
func vs_globalinv_typeNames() bool {
	return ArrayType == "array" && ObjectType == "object"
}
