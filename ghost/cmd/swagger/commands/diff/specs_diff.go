package diff

import (
	"fmt"

	"github.com/go-openapi/spec"
)

// vs_hasCode: some entry of ds at an index in [from, from+8) carries change code c.
// The window makes the predicate quantifier-free; it is exact whenever at most 8
// entries follow position from, which every contract using it also states.
func vs_hasCode(ds []TypeDiff, from int, c SpecChangeCode) bool {
	return vs_at(ds, from, c) || vs_at(ds, from+1, c) || vs_at(ds, from+2, c) || vs_at(ds, from+3, c) ||
		vs_at(ds, from+4, c) || vs_at(ds, from+5, c) || vs_at(ds, from+6, c) || vs_at(ds, from+7, c)
}

func vs_at(ds []TypeDiff, i int, c SpecChangeCode) bool {
	return 0 <= i && i < len(ds) && ds[i].Change == c
}

// vs_extends: b starts with the elements of a.
func vs_extends(a, b []TypeDiff) bool {
	return len(b) >= len(a) && vs_all(func(i int) bool { return 0 <= i && i < len(a) ==> b[i] == a[i] })
}

func vs_stringT(t *spec.SchemaProps) bool { return t.Type[0] == StringType }

func vs_numericT(t *spec.SchemaProps) bool { return vs_numeric(t.Type[0]) }

func vs_sameExclusive(a, b *spec.SchemaProps) bool {
	return a.ExclusiveMaximum == b.ExclusiveMaximum && a.ExclusiveMinimum == b.ExclusiveMinimum
}

func vs_sameFloat(a, b *float64) bool {
	return (a == nil && b == nil) || (a != nil && b != nil && *a == *b)
}

func vs_sameInt(a, b *int64) bool {
	return (a == nil && b == nil) || (a != nil && b != nil && *a == *b)
}

// vs_bothArrays: both sides are array-typed (the item-count rows of the C13 catalogue).
func vs_bothArrays(a, b *spec.SchemaProps) bool {
	return isArrayType(a.Type) && isArrayType(b.Type)
}

// vs_plainPrims: both sides are primitive-typed and neither is a $ref
// (the rows of the C13 catalogue about type, format, lengths, pattern, bounds).
func vs_plainPrims(a, b *spec.SchemaProps) bool {
	return isPrimitiveType(a.Type) && isPrimitiveType(b.Type) && !isRefType(a) && !isRefType(b)
}

func vs_typeChanged(a, b *spec.SchemaProps) bool {
	return a.Type[0] != b.Type[0] || a.Format != b.Format
}

func vs_descriptionCode(c SpecChangeCode) bool {
	return c == AddedDescripton || c == DeletedDescripton || c == ChangedDescripton
}

// vs_hasDiffCode: some entry of ds at an index in [from, from+8) carries change code c.
func vs_hasDiffCode(ds SpecDifferences, from int, c SpecChangeCode) bool {
	return vs_dat(ds, from, c) || vs_dat(ds, from+1, c) || vs_dat(ds, from+2, c) || vs_dat(ds, from+3, c) ||
		vs_dat(ds, from+4, c) || vs_dat(ds, from+5, c) || vs_dat(ds, from+6, c) || vs_dat(ds, from+7, c)
}

func vs_dat(ds SpecDifferences, i int, c SpecChangeCode) bool {
	return 0 <= i && i < len(ds) && ds[i].Code == c
}

// vs_noNone: no entry is the NoChangeDetected placeholder.
func vs_noNone(ds []TypeDiff) bool {
	return vs_all(func(k int) bool { return 0 <= k && k < len(ds) ==> ds[k].Change != NoChangeDetected })
}

// vs_sameSimple: the two simple schemas agree on every attribute compareSimpleSchema looks at.
func vs_sameSimple(a, b *spec.SimpleSchema) bool {
	return a.Nullable == b.Nullable && a.CollectionFormat == b.CollectionFormat && a.Default == b.Default && a.Example == b.Example
}

// vs_hasBreaking: some entry at an index >= from is classified Breaking.
func vs_hasBreaking(ds SpecDifferences, from int) bool {
	return vs_any(func(i int) bool { return from <= i && i < len(ds) && ds[i].Compatibility == Breaking })
}

func vs_brk(ds SpecDifferences, i int) bool {
	return 0 <= i && i < len(ds) && ds[i].Compatibility == Breaking
}

// vs_noBody: not a body parameter on either side (no schema to descend into).
func vs_noBody(p1, p2 spec.Parameter) bool { return p1.Schema == nil || p2.Schema == nil }

// The C13 catalogue rows for a simple (non-body) parameter whose type and format are
// unchanged: a constraint is introduced or tightened.
func vs_sameType(p1, p2 spec.Parameter) bool {
	return p1.Type == p2.Type && p1.Format == p2.Format
}

func vs_narrowsArray(p1, p2 spec.Parameter) bool {
	return vs_tightensMax(p1.MaxItems, p2.MaxItems) || vs_tightensMin(p1.MinItems, p2.MinItems)
}

func vs_narrowsString(p1, p2 spec.Parameter) bool {
	return vs_tightensMax(p1.MaxLength, p2.MaxLength) || vs_tightensMin(p1.MinLength, p2.MinLength) || p1.Pattern != p2.Pattern
}

func vs_narrowsNumber(p1, p2 spec.Parameter) bool {
	if (!p1.ExclusiveMaximum && p2.ExclusiveMaximum) || (!p1.ExclusiveMinimum && p2.ExclusiveMinimum) {
		return true
	}
	return p1.ExclusiveMaximum == p2.ExclusiveMaximum && p1.ExclusiveMinimum == p2.ExclusiveMinimum &&
		(vs_tightensMaxF(p1.Maximum, p2.Maximum) || vs_tightensMinF(p1.Minimum, p2.Minimum))
}

func vs_tightensMax(a, b *int64) bool  { return b != nil && (a == nil || *b < *a) }
func vs_tightensMin(a, b *int64) bool  { return b != nil && (a == nil || *b > *a) }
func vs_tightensMaxF(a, b *float64) bool { return b != nil && (a == nil || *b < *a) }
func vs_tightensMinF(a, b *float64) bool { return b != nil && (a == nil || *b > *a) }

// vs_validSimple: what the Swagger 2.0 schema guarantees about a simple schema (parameter,
// header or items object): an array-typed one carries items, recursively.
func vs_validSimple(s *spec.SimpleSchema) bool {
	if s.Type != "array" {
		return true
	}
	return s.Items != nil && vs_validSimple(&s.Items.SimpleSchema)
}

// vs_nonNilPtr: a schema-like value handed over as interface{} is not a typed nil pointer (a nil
// *spec.Schema boxed in an interface is not == nil, and the type-name helpers dereference it).
func vs_nonNilPtr(item interface{}) bool {
	switch s := item.(type) {
	case *spec.Schema:
		return s != nil
	case *spec.SchemaProps:
		return s != nil
	case *spec.SimpleSchema:
		return s != nil
	case *spec.Refable:
		return s != nil
	}
	return true
}

// vs_nonNilItem: a schema-like value handed over as interface{} is not a nil pointer, and a
// simple schema among them is valid in the sense above.
func vs_nonNilItem(item interface{}) bool {
	switch s := item.(type) {
	case *spec.Schema:
		return s != nil
	case *spec.SchemaProps:
		return s != nil
	case *spec.SimpleSchema:
		return s != nil && vs_validSimple(s)
	case spec.SimpleSchema:
		return vs_validSimple(&s)
	case *spec.Refable:
		return s != nil
	}
	return true
}

// compareSimpleSchema emits one entry per differing attribute, in a fixed order:
// nullable, collectionFormat, default, example. vs_simpleRows(a, b, n) is the number of
// entries emitted for the first n attributes.
func vs_simpleRows(a, b *spec.SimpleSchema, n int) int {
	k := 0
	if n >= 1 && a.Nullable != b.Nullable {
		k++
	}
	if n >= 2 && a.CollectionFormat != b.CollectionFormat {
		k++
	}
	if n >= 3 && a.Default != b.Default {
		k++
	}
	if n >= 4 && a.Example != b.Example {
		k++
	}
	return k
}

// vs_nullableCode: nullable -> not nullable reads as optional -> required, and vice versa.
func vs_nullableCode(wasNullable bool) SpecChangeCode {
	if wasNullable {
		return ChangedOptionalToRequired
	}
	return ChangedRequiredToOptional
}

// vs_presenceCode: added / deleted / changed, by presence of the old and the new value.
func vs_presenceCode(a, b interface{}, added, deleted, changed SpecChangeCode) SpecChangeCode {
	if a == nil && b != nil {
		return added
	}
	if a != nil && b == nil {
		return deleted
	}
	return changed
}

// vs_reclassified: out is in with its compatibility recomputed from (code, direction) - what addDiff does.
func vs_reclassified(out, in SpecDifference) bool {
	return out.Code == in.Code && out.DifferenceLocation == in.DifferenceLocation && out.DiffInfo == in.DiffInfo &&
		out.Compatibility == getCompatibilityForChange(in.Code, vs_context(in.DifferenceLocation))
}

// vs_in: s occurs in xs (transparent: unfolded at every use; for loop invariants).
func vs_in(xs []string, s string) bool {
	return vs_any(func(i int) bool { return 0 <= i && i < len(xs) && xs[i] == s })
}

// vs_inPrefix: s occurs among the first n elements of xs.
func vs_inPrefix(xs []string, n int, s string) bool {
	return vs_any(func(i int) bool { return 0 <= i && i < n && i < len(xs) && xs[i] == s })
}

// vs_flags: the bit set DiffsTo keeps per key (1 = in the old list, 2 = in the new list).
func vs_flags(inFrom, inTo bool) int {
	k := 0
	if inFrom {
		k++
	}
	if inTo {
		k += 2
	}
	return k
}

// vs_enumStr: how CompareEnums identifies an enum value (its %v rendering).
func vs_enumStr(e interface{}) string { return fmt.Sprintf("%v", e) }

// vs_inEnum: some value of xs renders as s.
func vs_inEnum(xs []interface{}, s string) bool {
	return vs_any(func(j int) bool { return 0 <= j && j < len(xs) && vs_enumStr(xs[j]) == s })
}

// vs_mem: s occurs in xs. Same meaning as vs_in, but opaque: an uninterpreted predicate with
// its definition as a triggered axiom, so that quantified contract clauses over it can be
// instantiated by callers.
// vs:opaque
func vs_mem(xs []string, s string) bool {
	return vs_any(func(i int) bool { return 0 <= i && i < len(xs) && xs[i] == s })
}

// vs_memEnum: some value of xs renders as s (opaque, see vs_mem).
// vs:opaque
func vs_memEnum(xs []interface{}, s string) bool {
	return vs_any(func(j int) bool { return 0 <= j && j < len(xs) && vs_enumStr(xs[j]) == s })
}

// vs_paramAt: among the first n parameters of ps there is one at location loc named name.
func vs_paramAt(ps []spec.Parameter, n int, loc, name string) bool {
	return vs_any(func(i int) bool { return 0 <= i && i < n && i < len(ps) && ps[i].In == loc && ps[i].Name == name })
}

// vs_paramBetween: a parameter at loc named name occurs at an index in (j, n).
func vs_paramBetween(ps []spec.Parameter, j, n int, loc, name string) bool {
	return vs_any(func(i int) bool { return j < i && i < n && i < len(ps) && ps[i].In == loc && ps[i].Name == name })
}

// vs_paramAfter: a later parameter of ps has the same location and name (it then wins).
func vs_paramAfter(ps []spec.Parameter, j int, loc, name string) bool {
	return vs_paramBetween(ps, j, len(ps), loc, name)
}

// ---- endpoint drivers ----

// vs_opsOK: what getURLMethodsFor builds: every entry has its path item and operation.
func vs_opsOK(m URLMethods) bool {
	return vs_all(func(um URLMethod) bool {
		return vs_has(m, um) ==> m[um] != nil && m[um].ParentPathItem != nil && m[um].Operation != nil
	})
}

// vs_deprecatedOp: docs/reference/transform/diff.md: removing an endpoint that was marked deprecated is not breaking.
func vs_deprecatedOp(op *PathItemOp) bool {
	return (op.ParentPathItem.Options != nil && op.ParentPathItem.Options.Deprecated) || op.Operation.Deprecated
}

// vs_deletedEntry: d reports the removal of an endpoint of the old spec that the new spec lacks:
// classified Breaking unless the endpoint was deprecated.
func vs_deletedEntry(m1, m2 URLMethods, d SpecDifference) bool {
	um := URLMethod{d.DifferenceLocation.URL, d.DifferenceLocation.Method}
	return vs_has(m1, um) && !vs_has(m2, um) && d.DifferenceLocation.Response == 0 &&
		((!vs_deprecatedOp(m1[um]) && d.Code == DeletedEndpoint && d.Compatibility == Breaking) ||
			(vs_deprecatedOp(m1[um]) && d.Code == DeletedDeprecatedEndpoint))
}

// vs_URLMethod: the type URLMethod under a name that local variables of the package do not shadow.
type vs_URLMethod = URLMethod

// vs_validSimpleV: vs_validSimple for a simple schema held by value (map elements are not addressable).
func vs_validSimpleV(s spec.SimpleSchema) bool {
	return s.Type != "array" || (s.Items != nil && vs_validSimple(&s.Items.SimpleSchema))
}

// vs_respOK: what a valid document guarantees about the responses of every operation: the
// responses object exists and every response header is a valid simple schema.
func vs_respOK(m URLMethods) bool {
	return vs_all(func(um URLMethod) bool {
		return vs_has(m, um) ==> m[um] != nil && m[um].Operation != nil && m[um].Operation.Responses != nil &&
			vs_all(func(code int) bool {
				return vs_has(m[um].Operation.Responses.StatusCodeResponses, code) ==>
					vs_all(func(h string) bool {
						return vs_has(m[um].Operation.Responses.StatusCodeResponses[code].Headers, h) ==>
							vs_validSimpleV(m[um].Operation.Responses.StatusCodeResponses[code].Headers[h].SimpleSchema)
					})
			})
	})
}

// parameter presence (docs/reference/transform/diff.md): a required parameter that appears is
// breaking for requests; deletions are reported with the required-ness of the old parameter.
func vs_addedParamCode(required bool) SpecChangeCode {
	if required {
		return AddedRequiredParam
	}
	return AddedOptionalParam
}

func vs_deletedParamCode(required bool) SpecChangeCode {
	if required {
		return DeletedRequiredParam
	}
	return DeletedOptionalParam
}

// vs_sortedDiffs (C07): the value handed to the JSON encoder is a difference list in the order
// of the text report (by the printed form of each difference), so that the JSON report does not
// depend on the order in which map iteration produced the differences.
func vs_sortedDiffs(v interface{}) bool {
	ds, ok := v.(SpecDifferences)
	return ok && vs_all(func(i int) bool {
		return vs_all(func(j int) bool { return 0 <= i && i < j && j < len(ds) ==> ds[i].String() <= ds[j].String() })
	})
}
